'''Plain unit tests (no explorer): every regression artefact of a repaired defect is replayed through the real run
loop and must show no violation on the current tree.  Run:  cd /verif && /venv/bin/python -m pytest -q tests'''
import glob
import json
import os
import sys

import pytest

ROOT = os.path.dirname(os.path.dirname(os.path.abspath(__file__)))
sys.path.insert(0, ROOT)
import mc  # noqa: E402
from mc import runner, checks, allkinds  # noqa: E402,F401
from mc.explorer import _Quiet  # noqa: E402

FILES = sorted(glob.glob(os.path.join(ROOT, 'replays', 'fixed', '*.json')))


@pytest.mark.parametrize('path', FILES, ids=[os.path.basename(f) for f in FILES])
def test_fixed_defect_stays_fixed(path):
    body = json.load(open(path))
    with _Quiet():
        r = runner.replay(body['job'], body['path'], lenient=True)
    assert 'clause' not in r, f'{body["property"]}: {r.get("clause")}: {r.get("detail")}'
