#!/venv/bin/python
'''Usage: run_check.py <PROPERTY> [--tier quick|thorough] [--replay FILE] [--procs N]

exit 0: the property held on everything explored (known findings are printed as KNOWN-FINDING lines)
exit 1: "VIOLATION property=<id> replay=<path>" printed for every new violation
exit 2: HARNESS-ERROR (the machinery itself failed; never a verdict)
'''
import argparse
import json
import os
import sys
import time

sys.path.insert(0, os.path.dirname(os.path.abspath(__file__)))


def main():
    ap = argparse.ArgumentParser()
    ap.add_argument('prop')
    ap.add_argument('--tier', default=os.environ.get('VERIF_TIER', 'quick'), choices=['quick', 'thorough'])
    ap.add_argument('--replay')
    ap.add_argument('--procs', type=int, default=None)
    ap.add_argument('--only', default=None, help='substring filter on scenario names (debugging)')
    a = ap.parse_args()
    seed = int(os.environ.get('VERIF_SEED', '0') or 0)
    import mc
    from mc import runner, checks, linejobs, monitors  # noqa: F401  (registers kinds and monitors)
    import mc.allkinds  # noqa: F401
    if a.replay:
        with open(a.replay) as f:
            body = json.load(f)
        from mc.explorer import _Quiet
        with _Quiet():
            r = runner.replay(body['job'], body['path'], lenient='/fixed/' in os.path.abspath(a.replay))
        if 'clause' in r:
            print(f'VIOLATION property={body["property"]} replay={a.replay}')
            print(f'  clause={r["clause"]} step={r["step"]} detail={r["detail"][:400]}')
            return 1
        print(f'replay of {a.replay}: no violation (final state {r.get("final")})')
        return 0
    chk = checks.CHECKS[a.prop]
    t0 = time.time()
    jobs = chk.jobs(a.tier)
    if a.only:
        jobs = [j for j in jobs if a.only in j['name']]
        runner.PARTIAL = True            # a filtered run must not overwrite the evidence of the full check
    outs = runner.run_jobs(jobs, seed=seed, nproc=a.procs)
    return runner.finish(a.prop, a.tier, seed, jobs, outs, t0, chk.rule, chk.nontrivial,
                         extra=chk.extra(a.tier, outs), assumptions=list(chk.assumptions))


if __name__ == '__main__':
    code = main()
    sys.stdout.flush()
    sys.stderr.flush()
    # skip object finalisers: library objects print from __del__ (ReservedResources) when the interpreter shuts down
    os._exit(code)
