'''Scenario catalogue (DESIGN.md section 4): small closed systems of real devices.
All numbers lie on a dyadic grid so that float arithmetic is exact.'''
import itertools

DEV = dict


def src(name='S', cycle=1, budget=None, **gen):
    d = {'kind': 'source', 'name': name, 'cycle': cycle, 'budget': budget}
    if gen:
        d['gen'] = gen
    return d


def proc(name, up, cycle=1, **kw):
    d = {'kind': 'processor', 'name': name, 'up': list(up), 'cycle': cycle}
    d.update(kw)
    return d


def hand(name, up, cycle=1, **kw):
    d = {'kind': 'handler', 'name': name, 'up': list(up), 'cycle': cycle}
    d.update(kw)
    return d


def buf(name, up, capacity=None, delay=0):
    return {'kind': 'buffer', 'name': name, 'up': list(up), 'capacity': capacity, 'delay': delay}


def sink(name, up, cycle=0, **kw):
    d = {'kind': 'sink', 'name': name, 'up': list(up), 'cycle': cycle, 'collect': True}
    d.update(kw)
    return d


def gate(name, up, decider):
    return {'kind': 'gate', 'name': name, 'up': list(up), 'decider': decider}


def flow(name, up):
    return {'kind': 'flow', 'name': name, 'up': list(up)}


def batcher(name, up, size=None):
    return {'kind': 'batcher', 'name': name, 'up': list(up), 'size': size}


def group(name, members, inputs=None, outputs=None):
    return {'kind': 'group', 'name': name, 'members': list(members), 'inputs': inputs, 'outputs': outputs}


def path(name, grp, up):
    return {'kind': 'path', 'name': name, 'group': grp, 'up': list(up)}


def maint(capacity=None, name='mt', value=0):
    return {'kind': 'maintainer', 'name': name, 'capacity': capacity, 'value': value}


def spec(name, devices, horizon, ops=(), K=0, **kw):
    s = {'name': name, 'devices': devices, 'horizon': horizon, 'ops': [list(o) for o in ops], 'K': K}
    s.update(kw)
    return s


# ---------------------------------------------------------------------------- SER

def station_options(thorough=False):
    cyc = [0, 1, 2] + ([0.5] if thorough else [])
    opts = []
    for c in cyc:
        opts.append(('handler', {'cycle': c}))
    for c in cyc:
        opts.append(('processor', {'cycle': c}))
    for cap in (1, 2, None):
        for dl in (0, 1):
            opts.append(('buffer', {'capacity': cap, 'delay': dl}))
    return opts


def ser_well_posed(src_cycle, budget, stations, sink_cycle):
    '''False for lines on which a zero-cycle unlimited source feeds an unbounded
    absorber through zero-time stations only (infinitely many events in one instant).'''
    if src_cycle > 0 or budget is not None:
        return True
    for kind, p in stations:
        if kind == 'buffer':
            if p['capacity'] is None:
                return False
            if p['delay'] > 0:
                return True
        elif p['cycle'] > 0:
            return True
    return sink_cycle > 0


def ser_family(n_max=2, src_cycles=(0, 1, 2), sink_cycles=(0, 1), budgets=(None, 2),
               horizon=5, thorough=False, n_min=0, opts=None):
    '''All serial lines Source -> stations^n -> Sink, n_min <= n <= n_max.  Yields
    (spec, wellposed).'''
    opts = opts or station_options(thorough)
    for n in range(n_min, n_max + 1):
        for stations in itertools.product(opts, repeat=n):
            for sc in src_cycles:
                for kc in sink_cycles:
                    for b in budgets:
                        devs = [src('S', sc, b)]
                        prev = 'S'
                        tag = []
                        for i, (kind, p) in enumerate(stations):
                            nm = f'X{i + 1}'
                            d = {'kind': kind, 'name': nm, 'up': [prev]}
                            d.update(p)
                            devs.append(d)
                            prev = nm
                            if kind == 'buffer':
                                tag.append(f'B{p["capacity"] or "inf"}d{p["delay"]}')
                            else:
                                tag.append(f'{kind[0].upper()}{p["cycle"]}')
                        devs.append(sink('K', [prev], kc))
                        if sc == 0:
                            # a third of the family configures its cycle times through the property (set after construction)
                            for dd in devs[1:]:
                                if dd['kind'] in ('handler', 'processor', 'sink'):
                                    dd['cycle_prop'] = True
                        name = f'SER[S{sc}b{"inf" if b is None else b}|{",".join(tag)}|K{kc}]'
                        yield spec(name, devs, horizon), ser_well_posed(sc, b, stations, kc)


# ---------------------------------------------------------------------------- catalogue rows

def FAN(K=0, horizon=6, src_cycle=1, m_cycle=2, cap=2, ops=None):
    devs = [src('S', src_cycle), proc('M1', ['S'], m_cycle), proc('M2', ['S'], m_cycle),
            buf('B', ['M1', 'M2'], cap), proc('M3', ['B'], 1), sink('K', ['M3'])]
    if ops is None:
        ops = [('fail', 'M1', 0), ('shutdown', 'M3'), ('restore', 'M3'), ('block', 'M3', True),
               ('block', 'M3', False)]
    return spec(f'FAN[s{src_cycle},m{m_cycle},cap{cap},K{K}]', devs, horizon, ops, K)


def GATE(K=0, horizon=6, ops=None):
    devs = [src('S', 1, qualities=[1, 0, 0, 1]), proc('P', ['S'], 1),
            gate('Gge', ['P'], 'q_ge'), gate('Glt', ['P'], 'q_lt'),
            sink('K1', ['Gge']), proc('P2', ['Glt'], 2), sink('K2', ['P2'])]
    if ops is None:
        ops = [('fail', 'P2', 0), ('block', 'K1', True), ('block', 'K1', False), ('shutdown', 'P2'),
               ('restore', 'P2')]
    return spec(f'GATE[K{K}]', devs, horizon, ops, K)


def REENT(K=0, horizon=8, src_cycle=4, ops=None):
    devs = [proc('M1', [], 1), group('G', ['M1']), src('S', src_cycle),
            path('A', 'G', ['S']), proc('M2', ['A'], 2), path('Bp', 'G', ['M2']), sink('K', ['Bp'])]
    if ops is None:
        ops = [('fail', 'M1', 0), ('shutdown', 'M2'), ('restore', 'M2'), ('restore', 'M1')]
    return spec(f'REENT[s{src_cycle},K{K}]', devs, horizon, ops, K)


def GRP2(K=0, horizon=6, ops=None, resources=False):
    kw = {'resources': {'r': 1}} if resources else {}
    devs = [proc('M1', [], 1, **kw), proc('M2', ['M1'], 1, **kw), group('G', ['M1', 'M2']),
            src('S1', 1), src('S2', 2), path('a', 'G', ['S1']), path('b', 'G', ['S2']),
            sink('K1', ['a']), sink('K2', ['b'])]
    if ops is None:
        ops = [('fail', 'M2', 0), ('block', 'a', True), ('block', 'a', False), ('restore', 'M2')]
        if resources:
            ops += [('addres', 'r', -1), ('addres', 'r', 1)]
    s = spec(f'GRP2[{"res," if resources else ""}K{K}]', devs, horizon, ops, K)
    if resources:
        s['pools'] = {'r': 1}
    return s


def NEST_MID(K=0, horizon=6, ops=None):
    devs = [proc('M', [], 1), group('Gi', ['M']),
            hand('H1', [], 0), path('pi', 'Gi', ['H1']), hand('H2', ['pi'], 1),
            group('Go', ['H1', 'pi', 'H2']),
            src('S', 1), path('po', 'Go', ['S']), sink('K', ['po']),
            src('S2', 2), path('pi2', 'Gi', ['S2']), sink('K2', ['pi2'])]
    if ops is None:
        ops = [('fail', 'M', 0), ('restore', 'M'), ('block', 'po', True), ('block', 'po', False)]
    return spec(f'NESTmid[K{K}]', devs, horizon, ops, K)


def GRPPASS(K=0, horizon=5, ops=None):
    '''A shared group that contains only a zero-time pass-through device (a quality gate used by two lines): a part
    reaches the group's output inside the very give_part call with which it enters.'''
    devs = [gate('Q', [], 'q_ge'), group('G', ['Q']),
            src('S1', 1, qualities=[1, 0.25, 0.75]), src('S2', 2), path('a', 'G', ['S1']), path('b', 'G', ['S2']),
            sink('K1', ['a'], 1), sink('K2', ['b']), gate('R', ['S1'], 'q_lt'), sink('KR', ['R'])]
    if ops is None:
        ops = [('block', 'a', True), ('block', 'a', False), ('block', 'K1', True), ('block', 'K1', False)]
    return spec(f'GRPPASS[K{K}]', devs, horizon, ops, K)


def NEST_PASS(K=0, horizon=7, ops=None):
    '''The same pass-through group nested inside a shared machine group: M1 -> (gate group) -> M2.'''
    devs = [gate('Q', [], 'all'), group('Gi', ['Q']),
            proc('M1', [], 1), path('hp', 'Gi', ['M1']), proc('M2', ['hp'], 1),
            group('Go', ['M1', 'hp', 'M2']),
            src('S1', 2), src('S2', 3), path('g1', 'Go', ['S1']), path('g2', 'Go', ['S2']),
            sink('K1', ['g1']), sink('K2', ['g2'])]
    if ops is None:
        ops = [('fail', 'M2', 0), ('restore', 'M2'), ('block', 'g1', True), ('block', 'g1', False)]
    return spec(f'NESTpass[K{K}]', devs, horizon, ops, K)


def NEST_OUT(K=0, horizon=6, ops=None):
    devs = [proc('M', [], 1), group('Gi', ['M']),
            hand('H1', [], 1), path('pi', 'Gi', ['H1']),
            group('Go', ['H1', 'pi']),
            src('S', 1), path('po', 'Go', ['S']), sink('K', ['po'])]
    if ops is None:
        ops = [('fail', 'M', 0), ('restore', 'M')]
    return spec(f'NESTout[K{K}]', devs, horizon, ops, K)


def BATCH(K=0, horizon=6, pattern=(2, None, 3), size=2, cap=None, sink_cycle=0, ops=None, src_cycle=1):
    devs = [src('S', src_cycle, pattern=list(pattern)), batcher('U', ['S'], None), proc('P', ['U'], 0.5),
            batcher('PB', ['P'], size), buf('B', ['PB'], cap), sink('K', ['B'], sink_cycle)]
    if ops is None:
        ops = [('fail', 'P', 0), ('restore', 'P'), ('block', 'K', True), ('block', 'K', False)]
    nm = 'BATCH[' + ','.join('s' if x is None else str(x) for x in pattern) + f'|n{size}|cap{cap}|K{sink_cycle}|K{K}]'
    return spec(nm, devs, horizon, ops, K)


def RES(K=0, horizon=6, r=1, q=1, ops=None):
    # (both also "require" zero units of a resource that was never defined: a legal entry that must change nothing)
    devs = [src('S', 1), proc('M1', ['S'], 2, resources={'r': 1, 'zz': 0}),
            proc('M2', ['S'], 2, resources={'zz': 0, 'r': 1, 'q': 1}), sink('K', ['M1', 'M2'])]
    if ops is None:
        ops = [('addres', 'r', -1), ('addres', 'r', 1), ('addres', 'q', -1), ('addres', 'q', 1),
               ('fail', 'M1', 0), ('restore', 'M1')]
    return spec(f'RES[r{r},q{q},K{K}]', devs, horizon, ops, K, pools={'r': r, 'q': q})


def RES_TWICE(K=0, horizon=8, ops=None):
    """Two lines of their own compete for one unit and take turns, so each machine has to WAIT for the unit a second time
    after having been woken once (sources slower than the machines: a machine gives the unit back between two parts); the
    first line runs out of parts, after which the unit is free and the second line is the only one left to use it."""
    devs = [src('S1', 2, 2), proc('M1', ['S1'], 1, resources={'r': 1}), sink('K1', ['M1']),
            src('S2', 2), proc('M2', ['S2'], 1, resources={'r': 1}), sink('K2', ['M2'])]
    if ops is None:
        ops = [('fail', 'M1', 0), ('restore', 'M1'), ('addres', 'r', -1), ('addres', 'r', 1)]
    return spec(f'RESTWICE[K{K}]', devs, horizon, ops, K, pools={'r': 1})


def RES_WINDOW(K=0, horizon=7, ops=None):
    '''A maintenance shutdown that begins exactly at the instant a part is finished, between the hand-over and the
    processor's deferred release of its resources (scripted, documented custom priority RELEASE_RESERVED_RESOURCES+0.5),
    and ends later (scripted); faults and capacity changes are injected on top.  A second line competes for the unit.'''
    devs = [src('S1', 2), proc('M1', ['S1'], 1, resources={'r': 1}), sink('K1', ['M1']),
            src('S2', 3), proc('M2', ['S2'], 1, resources={'r': 1}), sink('K2', ['M2'])]
    if ops is None:
        ops = [('fail', 'M1', 0), ('restore', 'M1'), ('addres', 'r', -1), ('addres', 'r', 1)]
    s = spec(f'RESWINDOW[K{K}]', devs, horizon, ops, K, pools={'r': 1})
    s['script'] = [[3, 6.5, ['shutdown', 'M1']], [4.5, 2, ['restore', 'M1']]]
    return s


def RES_FRAC(K=0, horizon=5, ops=None):
    '''Fractional requirements (half an operator): M1 needs 0.5, M2 0.75 of a pool of 1 -- they exclude each other, two
    M1-like machines would not.'''
    devs = [src('S', 1), proc('M1', ['S'], 2, resources={'r': 0.5}), proc('M2', ['S'], 1, resources={'r': 0.75}),
            proc('M3', ['S'], 2, resources={'r': 0.5}), sink('K', ['M1', 'M2', 'M3'])]
    if ops is None:
        ops = [('addres', 'r', -0.25), ('addres', 'r', 0.25), ('fail', 'M1', 0), ('restore', 'M1')]
    return spec(f'RESFRAC[K{K}]', devs, horizon, ops, K, pools={'r': 1})


def RES_NOISE(K=0, horizon=6, ops=None):
    '''Amounts that are not dyadic fractions (0.2, 0.1, 0.8 of a pool of 0.9): usage becomes 0.2 + 0.1 - 0.2 =
    0.10000000000000003.  Only flow liveness and termination are looked at (whether a waiting machine is woken, whether the
    run returns): exact pool arithmetic with such amounts is not something the properties settle.'''
    devs = [src('S1', 1, budget=1), proc('P1', ['S1'], 3, resources={'power': 0.2}), sink('K1', ['P1']),
            src('S2', 1.5, budget=1), proc('P2', ['S2'], 100, resources={'power': 0.1}), sink('K2', ['P2']),
            src('S3', 2, budget=1), proc('P3', ['S3'], 1, resources={'power': 0.8}), sink('K3', ['P3'])]
    if ops is None:
        ops = [('fail', 'P1', 0), ('restore', 'P1')]
    return spec(f'RESNOISE[K{K}]', devs, horizon, ops, K, pools={'power': 0.9})


def RES_SER(K=0, horizon=6, r=1, ops=None):
    devs = [src('S', 1), proc('M1', ['S'], 1, resources={'r': 1}), buf('B', ['M1'], 2),
            proc('M2', ['B'], 2, resources={'r': 1}), sink('K', ['M2'])]
    if ops is None:
        ops = [('addres', 'r', -1), ('addres', 'r', 1), ('fail', 'M2', 0), ('restore', 'M2'),
               ('shutdown', 'M1'), ('restore', 'M1')]
    return spec(f'RESSER[r{r},K{K}]', devs, horizon, ops, K, pools={'r': r})


def MAINT(K=0, horizon=6, cap=1, ops=None, probes=0, n=2):
    wo = {'x': [1, 1.5, 3], 'y': [1, 0, 0]}
    if n == 2:
        devs = [src('S', 1), proc('M1', ['S'], 2, wo=wo, auto_repair='x'), buf('B', ['M1'], 2),
                proc('M2', ['B'], 1, wo=wo, auto_repair='x'), sink('K', ['M2']), maint(cap)]
        if ops is None:
            ops = [('fail', 'M1', 0), ('fail', 'M2', 0), ('wo', 'M1', 'x'), ('wo', 'M2', 'y'),
                   ('shutdown', 'M2'), ('restore', 'M2')]
    else:
        devs = [src('S', 1), proc('M1', ['S'], 2, wo=wo, auto_repair='x'), sink('K', ['M1']), maint(cap)]
        if ops is None:
            ops = [('fail', 'M1', 0), ('fail', 'M1', 1), ('wo', 'M1', 'x'), ('wo', 'M1', 'y'),
                   ('shutdown', 'M1'), ('restore', 'M1')]
    s = spec(f'MAINT{n}[cap{cap},K{K}]', devs, horizon, ops, K)
    s['probes'] = probes
    return s


def WARMUP(K=0, horizon=5):
    '''The user discards the data recorded so far (simulation_data.clear(): a warm-up period) at any point of the run or
    between two runs; everything that happens afterwards must still be recorded.'''
    devs = [src('S', 1), proc('M1', ['S'], 2, auto_repair='x', wo={'x': [1, 1.5, 3]}, resources={'r': 1}), buf('B', ['M1'], 2),
            sink('K', ['B']), maint(1)]
    ops = [('cleardata',), ('fail', 'M1', 0), ('addres', 'r', 1)]
    return spec(f'WARMUP[K{K}]', devs, horizon, ops, K, pools={'r': 1})


def ABORT(K=0, horizon=5):
    '''A user callback raises in the middle of the run (scripted): the exception reaches the caller of simulate() and
    the exported trace lists every executed event including the failing one.'''
    devs = [src('S', 1), proc('M1', ['S'], 2, auto_repair='x', wo={'x': [1, 1.5, 3]}), sink('K', ['M1']), maint(1)]
    ops = [('fail', 'M1', 0), ('wo', 'M1', 'x')]
    s = spec(f'ABORT[K{K}]', devs, horizon, ops, K)
    s['script'] = [[3.5, 2, ['abort']]]
    return s


def BLOCK(K=0, horizon=6, ops=None):
    devs = [src('S', 1), proc('M1', ['S'], 1), sink('K', ['M1'], 0)]
    if ops is None:
        ops = [('block', 'M1', True), ('block', 'M1', False), ('block', 'K', True), ('block', 'K', False)]
    return spec(f'BLOCK[K{K}]', devs, horizon, ops, K)


def BLOCK0(K=0, horizon=5, ops=None):
    '''Inputs that are blocked BEFORE the first run (set right after construction): a machine, a gate and a group path.'''
    m1 = proc('M1', ['S'], 1)
    m1['blocked'] = True
    g = gate('G', ['S'], 'all')
    g['blocked'] = True
    gp = path('gp', 'Gr', ['S'])
    gp['blocked'] = True
    devs = [src('S', 1), m1, proc('M2', ['S'], 2), g, proc('M3', [], 1), group('Gr', ['M3']), gp,
            sink('K', ['M1', 'M2', 'G', 'gp'])]
    if ops is None:
        ops = [('block', 'M1', False), ('block', 'G', False), ('block', 'gp', False), ('block', 'M2', True)]
    return spec(f'BLOCK0[K{K}]', devs, horizon, ops, K)


def BUDGET(K=0, horizon=6, budget=2, ops=None):
    devs = [src('S', 1, budget), proc('M', ['S'], 1), sink('K', ['M'])]
    if ops is None:
        ops = [('adjust', 'S', 1), ('adjust', 'S', -1), ('adjust', 'S', 2), ('adjust', 'S', -2)]
    return spec(f'BUDGET[b{budget},K{K}]', devs, horizon, ops, K)


def REWIRE(K=0, horizon=6, ops=None):
    devs = [src('S', 1), proc('M1', ['S'], 2), proc('M2', [], 2), sink('K', ['M1']), sink('K2', [])]
    if ops is None:
        ops = [('upstream', 'M2', ['S']), ('upstream', 'K', ['M1', 'M2']), ('upstream', 'K2', ['M2']),
               ('upstream', 'K', []), ('upstream', 'K2', ['M1'])]
    return spec(f'REWIRE[K{K}]', devs, horizon, ops, K)


def BUF2_SCRIPT(K=0, horizon=7, ops=None):
    '''Two buffers in a row in front of a slow machine; the input of the second (finite) one is blocked for a while
    (scripted), parts pile up in the first one and are released when the block is lifted while the second still has room.'''
    devs = [src('S', 0.5, budget=7), buf('B1', ['S'], None), buf('B2', ['B1'], 3), proc('M', ['B2'], 2), sink('K', ['M'])]
    if ops is None:
        ops = [('fail', 'M', 0), ('restore', 'M'), ('block', 'K', True), ('block', 'K', False)]
    s = spec(f'BUF2SCRIPT[K{K}]', devs, horizon, ops, K)
    s['script'] = [[1.75, 2, ['block', 'B2', True]], [3.75, 2, ['block', 'B2', False]]]
    return s


def LOOP(K=0, horizon=6, delay=1, cap=4, ops=None, pattern=None):
    '''A multi-pass store: parts leave the buffer through a gate that sends them straight back into the SAME buffer
    until they have been through it twice (zero-time loop: the part re-enters inside the buffer's own hand-over).'''
    b = buf('B', ['S', 'Gagain'], cap, delay)
    b['up_init'] = ['S']
    s0 = src('S', 1, budget=3) if pattern is None else src('S', 1, budget=3, pattern=list(pattern))   # (batches go round too)
    devs = [s0, b, gate('Gagain', ['B'], 'again'), gate('Gdone', ['B'], 'done'), sink('K', ['Gdone'], 0.5)]
    if ops is None:
        ops = [('block', 'K', True), ('block', 'K', False)]
    return spec(f'LOOP[d{delay},cap{cap}{",batches" if pattern else ""},K{K}]', devs, horizon, ops, K)


def REWIRE2(K=0, horizon=6, ops=None):
    '''Re-wiring by editing the list the `upstream` getter returned: a consumer drops one of its two feeders, gets it
    back, a second consumer is attached to a feeder that is blocked at that moment.'''
    devs = [src('A', 1), src('B', 2), proc('X', ['A', 'B'], 2), sink('K', ['X']), proc('Y', [], 1), sink('K2', ['Y'])]
    if ops is None:
        ops = [('upstream_edit', 'X', ['A'], []), ('upstream_edit', 'X', [], ['A']), ('upstream_edit', 'Y', [], ['A']),
               ('upstream_edit', 'X', ['B'], []), ('upstream_edit', 'Y', ['A'], [])]
    return spec(f'REWIRE2[K{K}]', devs, horizon, ops, K)


def FANOUT(K=0, horizon=6, ops=None):
    devs = [src('S', 1), buf('B', ['S'], 2), proc('M1', ['B'], 2), proc('M2', ['B'], 3), sink('K', ['M1', 'M2'])]
    if ops is None:
        ops = [('fail', 'M1', 0), ('restore', 'M1'), ('block', 'M2', True), ('block', 'M2', False)]
    return spec(f'FANOUT[K{K}]', devs, horizon, ops, K)


def FANSINK(K=0, horizon=7, ops=None):
    """A source feeding three parallel sinks that take no time: each sink is idle again within the very event in which it
    received its part, so after the first round the idle-longest rule has to go by stamps set inside the reception."""
    devs = [src('S', 1), sink('K1', ['S'], 0), sink('K2', ['S'], 0), sink('K3', ['S'], 0)]
    if ops is None:
        ops = [('block', 'K1', True), ('block', 'K1', False), ('block', 'K2', True), ('block', 'K2', False)]
    return spec(f'FANSINK[K{K}]', devs, horizon, ops, K)


def REENT_SENS(K=0, horizon=9, n=1, ops=None):
    """The re-entrant line (one machine used at two positions of the route) with an output-part sensor on the shared
    machine: the same part is finished twice by the sensed processor, possibly twice in a row."""
    devs = [proc('M1', [], 1, dq=-0.25), group('G', ['M1']), src('S', 4, qualities=[1, 0.5]),
            path('A', 'G', ['S']), buf('Bm', ['A'], 2), path('Bp', 'G', ['Bm']), sink('K', ['Bp']),
            osensor('O', 'M1', ['quality', 'id'], n, None, 1)]
    if ops is None:
        ops = [('fail', 'M1', 0), ('restore', 'M1')]
    return spec(f'REENTSENS[n{n},K{K}]', devs, horizon, ops, K)


def FAN3(K=0, horizon=8, ops=None):
    devs = [src('S', 1), proc('M1', ['S'], 3), proc('M2', ['S'], 2), proc('M3', ['S'], 4), sink('K', ['M1', 'M2', 'M3'])]
    return spec(f'FAN3[K{K}]', devs, horizon, ops or [('block', 'M2', True), ('block', 'M2', False)], K)


def DELAY01(K=0, horizon=1.0, ops=None):
    '''Deliberately non-dyadic: exercises the one-ulp clause of the minimum delay.'''
    devs = [src('S', 0.1), buf('B', ['S'], 2, 0.1), proc('M', ['B'], 0.3), sink('K', ['M'])]
    if ops is None:
        ops = [('block', 'M', True), ('block', 'M', False)]
    return spec(f'DELAY01[K{K}]', devs, horizon, ops, K, positions=['pre', 'end'])


def CYCLES(K=0, horizon=7, ops=None):
    wo = {'x': [1, 1.5, 3], 'z': [0, 0, 0]}
    devs = [src('S', 1), proc('M1', ['S'], 2, wo=wo, cycles=[2, 1, 0.5, 1], offsets=[0, -2, 0.5, 0]),
            sink('K', ['M1']), maint(1)]
    if ops is None:
        ops = [('fail', 'M1', 0), ('fail', 'M1', 1), ('wo', 'M1', 'x'), ('wo', 'M1', 'z'),
               ('shutdown', 'M1'), ('restore', 'M1')]
    return spec(f'CYCLES[K{K}]', devs, horizon, ops, K)


def CYCLES3(K=0, horizon=7, ops=None):
    '''A machine whose cycle time depends on the part in hand (the cycle_time getter is overridden: parts of low quality
    take three times as long) and one-shot offsets requested from outside at any moment, also shortly before a failure.'''
    wo = {'x': [1, 1.5, 3]}
    devs = [src('S', 1, qualities=[1, 0.25, 0.75, 0]), proc('M1', ['S'], 1, wo=wo, slow=3, auto_repair='x', pre_offset=0.5), sink('K', ['M1']), maint(1)]
    if ops is None:
        ops = [('offset', 'M1', 0.5), ('offset', 'M1', -0.5), ('fail', 'M1', 0), ('shutdown', 'M1'), ('restore', 'M1')]
    return spec(f'CYCLES3[K{K}]', devs, horizon, ops, K)


def CYCLES2(K=0, horizon=6, ops=None):
    devs = [src('S', 0.5), hand('H', ['S'], 1, cycles=[1, 0, 2], offsets=[0.5, 0, -1]),
            proc('P', ['H'], 1, offsets=[0, 1, -0.5]), sink('K', ['P'], 1)]
    if ops is None:
        ops = [('shutdown', 'P'), ('restore', 'P'), ('fail', 'P', 0), ('cycle', 'P', 2), ('cycle', 'H', 0)]
    return spec(f'CYCLES2[K{K}]', devs, horizon, ops, K)


def GATEGRP(K=0, horizon=5, ops=None):
    devs = [proc('M', [], 1), group('G', ['M']), src('S', 1, qualities=[1, 0, 1, 1, 0]),
            gate('G1', ['S'], 'q_ge'), gate('G2', ['S'], 'q_lt'),
            path('a', 'G', ['G1']), path('b', 'G', ['G2']), sink('K1', ['a']), sink('K2', ['b'], 2)]
    if ops is None:
        ops = [('fail', 'M', 0), ('restore', 'M'), ('block', 'b', True), ('block', 'b', False)]
    return spec(f'GATEGRP[K{K}]', devs, horizon, ops, K)


def RES_MAINT(K=0, horizon=5, ops=None):
    wo = {'x': [1, 1.5, 0]}
    devs = [src('S', 1), proc('M1', ['S'], 2, resources={'r': 1}, wo=wo), proc('M2', ['S'], 1, resources={'r': 1}),
            sink('K', ['M1', 'M2']), maint(1)]
    if ops is None:
        ops = [('wo', 'M1', 'x'), ('fail', 'M1', 0), ('restore', 'M1'), ('addres', 'r', -1), ('addres', 'r', 1)]
    return spec(f'RESMAINT[K{K}]', devs, horizon, ops, K, pools={'r': 1})


def BLOCKED_OUT(K=0, horizon=6, ops=None):
    devs = [src('S', 1), proc('M1', ['S'], 1), sink('K', ['M1'], 3)]
    if ops is None:
        ops = [('fail', 'M1', 0), ('shutdown', 'M1'), ('restore', 'M1')]
    s = spec(f'BLOCKEDOUT[K{K}]', devs, horizon, ops, K)
    s['probes'] = 3
    return s


def VALUE(K=0, horizon=6, ops=None):
    wo = {'x': [1, 1, 4], 'f': [0, 0, 0]}
    devs = [src('S', 1, values=[5, 3, 0]), proc('P1', ['S'], 1, dv=2, value=7), proc('P2', ['P1'], 2, dv=-1, wo=wo, auto_repair='x'),
            sink('K', ['P2']), maint(1, value=10)]
    if ops is None:
        ops = [('fail', 'P2', 0), ('wo', 'P2', 'x'), ('wo', 'P2', 'f'), ('fail', 'P1', 0), ('restore', 'P1')]
    return spec(f'VALUE[K{K}]', devs, horizon, ops, K)


def VALUE_HOLD(K=0, horizon=5, ops=None):
    '''Value booked by user code on items that are waiting in a device (the source's output slot while the line is
    full, a machine's part in process): worth at supply / receipt is the worth at that moment.'''
    devs = [src('S', 1, pattern=[None, 2], values=[5, 3]), proc('P', ['S'], 2, dv=1), sink('K', ['P'], 0, recv_dv=-2)]
    if ops is None:
        ops = [('revalue', 'S', 2), ('revalue', 'P', -1), ('fail', 'P', 0)]
    return spec(f'VALUEHOLD[K{K}]', devs, horizon, ops, K)


def NESTBATCH(K=0, horizon=5, ops=None):
    '''Batches that contain batches (pallets of boxes from a user PartGenerator) travelling through a machine and a gate
    in front of a slow station (refused offers).  Only routing is looked at: whether an inner batch counts as one part or
    as its content in a buffer or a sink is not something the properties settle.'''
    devs = [src('S', 1, pattern=[[2, 1], None, [1, [1, 1]]]), proc('P', ['S'], 0.5), gate('G', ['P'], 'all'),
            proc('P2', ['G'], 1.5), sink('K', ['P2'])]
    if ops is None:
        ops = [('fail', 'P', 0), ('restore', 'P'), ('block', 'P2', True), ('block', 'P2', False)]
    return spec(f'NESTBATCH[K{K}]', devs, horizon, ops, K)


def VALUE_ALL(K=0, horizon=4, ops=None):
    '''Every kind of asset configured with its own starting value (negative ones included), plus an asset that is
    transitory by construction and registered with the system by hand (a leased tool).'''
    wo = {'x': [1, 1, 2]}
    devs = [src('S', 1, values=[5, 3]), hand('H', ['S'], 0.5, value=2), buf('B', ['H'], 2, 0),
            batcher('U', ['B'], None), proc('P', ['U'], 1, dv=1, value=7, wo=wo), sink('K', ['P']), maint(1, value=10),
            obj('o1'), psensor('PS', 1, [('o1', 'n')], 2, 1), osensor('OS', 'P', ['quality'], 0, None, 1), cms('C', ['PS', 'OS']),
            {'kind': 'leased', 'name': 'tool', 'value': -6}]
    devs[2]['value'] = 3
    devs[3]['value'] = -1
    devs[8]['value'] = -5
    devs[9]['value'] = 4
    devs[10]['value'] = 1
    if ops is None:
        ops = [('fail', 'P', 0), ('wo', 'P', 'x'), ('addvalue', 'tool', -2), ('addvalue', 'PS', 1)]
    return spec(f'VALUEALL[K{K}]', devs, horizon, ops, K)


def VALUE_BATCH(K=0, horizon=5, ops=None):
    devs = [src('S', 1, pattern=[2, None], values=[5, 3, 1]), batcher('U', ['S'], None), proc('P', ['U'], 0.5, dv=1),
            batcher('PB', ['P'], 2), sink('K', ['PB'])]
    if ops is None:
        ops = [('fail', 'P', 0), ('restore', 'P')]
    return spec(f'VALUEBATCH[K{K}]', devs, horizon, ops, K)


# ---------------------------------------------------------------------------- rows added after the first seeded-change round

def BUFBATCH(K=0, horizon=5, pattern=(2, 3, None), cap=5, size=None, sink_cycle=0.5, ops=None):
    '''Batches stored in a buffer that feeds a batcher DIRECTLY (the batcher takes parts out of the batch while
    it accepts it).'''
    devs = [src('S', 1, pattern=list(pattern)), buf('B', ['S'], cap), batcher('PB', ['B'], size), sink('K', ['PB'], sink_cycle)]
    if ops is None:
        ops = [('block', 'PB', True), ('block', 'PB', False)]
    nm = 'BUFBATCH[' + ','.join('s' if x is None else str(x) for x in pattern) + f'|cap{cap}|n{size}|K{K}]'
    return spec(nm, devs, horizon, ops, K)


def BATCH_DIRECT(K=0, horizon=6, pattern=(None, 2), size=2, cap=None, sink_cycle=0, ops=None):
    '''The re-batching batcher receives batches and single parts directly from the source.'''
    devs = [src('S', 1, pattern=list(pattern)), batcher('PB', ['S'], size), buf('B', ['PB'], cap), sink('K', ['B'], sink_cycle)]
    if ops is None:
        ops = [('block', 'K', True), ('block', 'K', False)]
    nm = 'BATCHDIRECT[' + ','.join('s' if x is None else str(x) for x in pattern) + f'|n{size}|cap{cap}|K{sink_cycle}|K{K}]'
    return spec(nm, devs, horizon, ops, K)


def BATCHGATE(K=0, horizon=6, ops=None):
    '''Batches built by a batcher, refused behind a pass-through gate by a busy machine, accepted later.'''
    devs = [src('S', 0.5), batcher('PB', ['S'], 2), gate('G', ['PB'], 'all'), proc('M', ['G'], 2), sink('K', ['M'])]
    if ops is None:
        ops = [('fail', 'M', 0), ('restore', 'M'), ('block', 'G', True), ('block', 'G', False)]
    return spec(f'BATCHGATE[K{K}]', devs, horizon, ops, K)


def FANOUT_DELAY(K=0, horizon=4, ops=None):
    '''Buffer with a minimum delay in front of two consumers that are free at the same instant.'''
    devs = [src('S', 0.5), buf('B', ['S'], 3, 1), proc('M1', ['B'], 2), proc('M2', ['B'], 2), sink('K', ['M1', 'M2'])]
    if ops is None:
        ops = [('block', 'M2', True), ('block', 'M2', False), ('fail', 'M1', 0), ('restore', 'M1')]
    return spec(f'FANOUTDELAY[K{K}]', devs, horizon, ops, K)


def GRPFAN(K=0, horizon=5, ops=None):
    '''Fan-out directly behind a group path: two receivers able to accept at the same instant.'''
    devs = [proc('M1', [], 1), group('G', ['M1']), src('S', 1), path('a', 'G', ['S']),
            proc('N1', ['a'], 1), proc('N2', ['a'], 1), sink('K', ['N1', 'N2']), sink('K2', ['a'])]
    if ops is None:
        ops = [('fail', 'N1', 0), ('restore', 'N1'), ('block', 'K2', True), ('block', 'K2', False)]
    return spec(f'GRPFAN[K{K}]', devs, horizon, ops, K)


def RES_SHUT(K=0, horizon=9, ops=None):
    '''Two lines sharing one unit of a resource; M2 is shut down (scripted) while its request for the unit is
    pending, the unit is released and taken again during the outage, M2 is restored, the unit is released again.'''
    devs = [src('S1', 3), proc('M1', ['S1'], 2, resources={'r': 1}), sink('K1', ['M1']),
            src('S2', 4), proc('M2', ['S2'], 1, resources={'r': 1}), sink('K2', ['M2'])]
    if ops is None:
        ops = [('addres', 'r', -1), ('addres', 'r', 1), ('fail', 'M1', 0), ('restore', 'M1')]
    s = spec(f'RESSHUT[K{K}]', devs, horizon, ops, K, pools={'r': 1})
    s['script'] = [[4.5, 2, ['shutdown', 'M2']], [6.5, 2, ['restore', 'M2']]]
    return s


def VALUE_NEST(K=0, horizon=4, ops=None):
    '''Batches that contain batches (a user PartGenerator may build them); value only.'''
    devs = [src('S', 1, pattern=[[2, 1], None, [1, [1, 1]]], values=[5, 3, 1, -2]), proc('P', ['S'], 1, dv=1), sink('K', ['P'])]
    if ops is None:
        ops = [('fail', 'P', 0), ('restore', 'P')]
    return spec(f'VALUENEST[K{K}]', devs, horizon, ops, K)


def VALUE_NEG(K=0, horizon=6, ops=None):
    '''Negative part values and a work order with negative cost (a credit).'''
    wo = {'x': [1, 1, -4], 'f': [0, 0, 2]}
    devs = [src('S', 1, values=[5, -3, 0]), proc('P1', ['S'], 1, dv=-2, value=7), proc('P2', ['P1'], 2, dv=1, wo=wo, auto_repair='x'),
            sink('K', ['P2']), maint(1, value=10)]
    if ops is None:
        ops = [('fail', 'P2', 0), ('wo', 'P2', 'x'), ('wo', 'P2', 'f')]
    return spec(f'VALUENEG[K{K}]', devs, horizon, ops, K)


def with_splits(sp, n=1):
    '''Same scenario, but the run may be split into consecutive simulate() calls at n points (every quiescent point
    is offered: strictly between two instants and as the last thing of an instant), with operations issued
    between the runs as plain calls.'''
    s = dict(sp)
    s['splits'] = n
    s['name'] = sp['name'] + f'+split{n}'
    return s


# ---------------------------------------------------------------------------- schedulers, sensors

def obj(name):
    return {'kind': 'obj', 'name': name}


def sched(name, schedule, cyclical=True, targets=()):
    return {'kind': 'scheduler', 'name': name, 'schedule': [list(x) for x in schedule], 'cyclical': cyclical,
            'targets': [list(x) for x in targets]}


def timetable_well_posed(schedule, cyclical):
    '''A cyclical timetable whose durations are all zero changes state infinitely often in one instant.'''
    return not cyclical or any(d > 0 for d, _ in schedule)


def timetables(durations=(0, 0.5, 1, 2), max_len=3):
    states = ['a', 'b', 'a']
    for n in range(1, max_len + 1):
        for ds in itertools.product(durations, repeat=n):
            yield [(d, states[i]) for i, d in enumerate(ds)]


def SCHED(schedule, cyclical, prereg=(), K=0, horizon=6, second=None, inline=False):
    '''One scheduler, two plain objects; registrations before the run (prereg) and injected during it.'''
    devs = [obj('o1'), obj('o2'), sched('A', schedule, cyclical, prereg)]
    ops = [('reg', 'A', 'o1', 'default'), ('reg', 'A', 'o2', 'override'), ('unreg', 'A', 'o1'), ('unreg', 'A', 'o2'),
           ('reg', 'A', 'o1', 'override')]
    if inline:
        ops = [('reginline', 'A', 'tmp'), ('unreg', 'A', 'o1'), ('reg', 'A', 'o1', 'default')]
    if second is not None:
        devs.append(sched('B', second, True, [('o1', 'default')]))
    tag = ','.join(f'{d}{s}' for d, s in schedule)
    nm = f'SCHED[{tag}|{"cyc" if cyclical else "once"}|pre{len(prereg)}|{"2|" if second else ""}{"inline|" if inline else ""}K{K}]'
    sp = spec(nm, devs, horizon, ops, K)
    if inline:
        sp['op_limits'] = [1, None, None]       # one object created on the spot (a second one would be another object of the same name)
    return sp


def SCHED_SAME(K=0, horizon=4):
    '''Two assets of the same class that carry the same user-given name, both registered with one scheduler.'''
    f1, f2 = flow('f1', []), flow('f2', [])
    f1['asset_name'] = f2['asset_name'] = 'station'
    devs = [f1, f2, sched('A', [(1, 'on'), (0.5, 'off')], True, [('f1', 'default'), ('f2', 'default')])]
    ops = [('unreg', 'A', 'f2'), ('reg', 'A', 'f2', 'override'), ('unreg', 'A', 'f1'), ('reg', 'A', 'f1', 'default')]
    return spec(f'SCHEDSAME[K{K}]', devs, horizon, ops, K)


def SCHED_BLOCK(K=0, horizon=6, ops=None):
    '''examples/OperatingSchedule.py in small: a shift schedule blocks the input of a machine.'''
    devs = [src('S', 1), proc('M1', ['S'], 1), sink('K', ['M1']),
            sched('A', [(1.5, 'on'), (1, 'off')], True, [('M1', 'default')]), obj('o2')]
    if ops is None:
        ops = [('unreg', 'A', 'M1'), ('reg', 'A', 'M1', 'default'), ('reg', 'A', 'o2', 'override'), ('fail', 'M1', 0), ('restore', 'M1')]
    return spec(f'SCHEDBLOCK[K{K}]', devs, horizon, ops, K)


def psensor(name, interval, probes, cap=None, callbacks=1):
    return {'kind': 'psensor', 'name': name, 'interval': interval, 'probes': [list(p) for p in probes],
            'data_capacity': cap, 'callbacks': callbacks}


def osensor(name, processor, probes, n=0, cap=None, callbacks=1):
    return {'kind': 'osensor', 'name': name, 'processor': processor, 'probes': list(probes), 'sensing_interval': n,
            'data_capacity': cap, 'callbacks': callbacks}


def cms(name, sensors):
    return {'kind': 'cms', 'name': name, 'sensors': list(sensors)}


def SENS(K=0, horizon=5, interval=1, cap=2, n=1, ocap=None, callbacks=2, cms_twice=True, second=None, ops=None,
         placeholder=None, two_cms=False, same_name=False, post_dq=None, burst=False, manual=False, late_cb=False):
    '''A processor under an output-part sensor, periodic sensors on a mutable object, a CMS.'''
    wo = {'x': [1, 1, 0]}
    devs = [src('S', 1, qualities=[1, 0.5, 0.25, 0.75], values=[1, 2, 3]), proc('M1', ['S'], 1, wo=wo, dq=-0.25, auto_repair='x'),
            sink('K', ['M1']), maint(1), obj('o1'),
            psensor('P', interval, [('o1', 'x'), ('o1', 'n'), ('o1', 'r'), ('o1', 'm')], cap, callbacks),
            osensor('O', 'M1', ['quality', 'id'], n, ocap, 1)]
    if burst:
        # several parts finished -- several measurements of ONE sensor -- at the same instant
        devs[0] = src('S', 0, 3, qualities=[1, 0.5, 0.25, 0.75], values=[1, 2, 3])
        devs[1] = proc('M1', ['S'], 0, wo=wo, dq=-0.25, auto_repair='x')
    if placeholder:
        devs[-1]['placeholder'] = placeholder
    if post_dq is not None:
        # one more processing step (a finish callback that changes the quality) is registered AFTER the sensor was
        # constructed, before the run starts: the sensor measures the processed part
        devs[-1]['post_dq'] = post_dq
    names = ['P', 'O'] + (['P'] if cms_twice else [])
    if second is not None:
        devs.append(psensor('P2', second, [('o1', 'n')], 1, 1))
        if same_name:
            devs[-1]['asset_name'] = 'P'        # a different sensor that carries the same user-given name
        names.append('P2')
    devs.append(cms('C', names))
    if late_cb:
        devs[-1]['late_callbacks'] = {'O': 1, 'P': 1}
    if two_cms:
        devs.append(cms('Cb', ['O']))           # a second CMS watching only ONE of the sensors the first one watches
    if ops is None:
        ops = [('bump', 'o1'), ('fail', 'M1', 0), ('wo', 'M1', 'x'), ('restore', 'M1'), ('addsensor', 'C', 'P')]
        if manual:
            ops = [('sense', 'O'), ('fail', 'M1', 0), ('restore', 'M1')]
    nm = (f'SENS[i{interval},c{cap},n{n},oc{ocap},cb{callbacks}{",2nd" + str(second) if second else ""}'
          f'{",ph=" + placeholder if placeholder else ""}{",2cms" if two_cms else ""}{",samename" if same_name else ""}{",post" if post_dq is not None else ""}{",burst" if burst else ""}{",manual" if manual else ""}{",latecb" if late_cb else ""},K{K}]')
    return spec(nm, devs, horizon, ops, K)


# ---------------------------------------------------------------------------- C20: assets created while running

LATE_DEVICES = [
    src('S2', 1),                                   # 0  a whole new line: source ...
    hand('H2', ['S2'], 0.5),                        # 1  ... handler ...
    sink('K2', ['H2']),                             # 2  ... sink
    proc('M2', ['S'], 1, wo={'x': [1, 1, 0]}),      # 3  a second machine behind the existing source ...
    sink('K3', ['M2']),                             # 4  ... with its own sink
    maint(1, name='mt2', value=5),                  # 5
    sched('A2', [(1, 'a'), (0.5, 'b')], True, [('o1', 'default')]),   # 6
    psensor('P2', 1, [('o1', 'n')], 2, 1),          # 7
    osensor('O2', 'M1', ['quality'], 1, None, 1),   # 8
    cms('C2', ['P']),                               # 9
    buf('B2', ['S'], 2, 0),                         # 10
    sink('K4', ['B2'], 1),                          # 11
    batcher('PB2', ['S'], 2),                       # 12
    gate('G2', ['PB2'], 'all'),                     # 13
    sink('K5', ['G2']),                             # 14
    sink('K9', ['M1']),                             # 15  a second sink behind the existing machine
]


def LATE(K=1, horizon=5, ops=None, creates=None, name=''):
    '''Every kind of asset created from inside an event (and between runs when the run is split) in a running line.'''
    wo = {'x': [1, 1, 2]}
    devs = [src('S', 1), proc('M1', ['S'], 2, wo=wo), sink('K', ['M1']), maint(1), obj('o1'),
            psensor('P', 1, [('o1', 'n')], 2, 1), cms('C', ['P'])]
    if creates is None:
        creates = [[0, 1, 2], [3, 4], [5], [6], [7], [8], [9], [10, 11], [12, 13, 14]]
    if ops is None:
        ops = [['create'] + c for c in creates]
    s = spec(f'LATE{name}[K{K}]', devs, horizon, ops, K)
    s['late'] = LATE_DEVICES
    s['id_offset'] = 300          # asset ids above CPython's small-int cache
    return s


def EX_SINGLE_PROCESSOR():
    '''examples/SingleProcessor.py (documented result: 99 parts).'''
    s = spec('EX-SingleProcessor', [src('S', 1), proc('M1', ['S'], 1), sink('K', ['M1'])], 100)
    s['max_parts'] = 128
    s['documented_count'] = 99
    return s


def EX_BUFFER():
    '''examples/BufferExample.py (documented result: 10079 parts).'''
    s = spec('EX-BufferExample', [src('S', 0), proc('M1', ['S'], 1), buf('B1', ['M1'], 5), proc('M2', ['B1'], 1),
                                  sink('K', ['M2'])], 60 * 24 * 7)
    s['max_parts'] = 10200
    s['documented_count'] = 10079
    return s


# ---------------------------------------------------------------------------- enumerated two-layer topologies

def _layer_options():
    '''(tag, [device builders]) for one layer: a builder is (kind-specific dict without name/up).'''
    one = [('H1', [dict(kind='handler', cycle=1)]), ('P1', [dict(kind='processor', cycle=1)]),
           ('P2', [dict(kind='processor', cycle=2)]), ('B1', [dict(kind='buffer', capacity=1, delay=0)]),
           ('B2d', [dict(kind='buffer', capacity=2, delay=1)]), ('PB2', [dict(kind='batcher', size=2)]),
           ('U', [dict(kind='batcher', size=None)]), ('F', [dict(kind='flow')]), ('G', [dict(kind='gate', decider='all')])]
    two = [('P1|P2', [dict(kind='processor', cycle=1), dict(kind='processor', cycle=2)]),
           ('P2|P2', [dict(kind='processor', cycle=2), dict(kind='processor', cycle=2)]),
           ('H1|B2', [dict(kind='handler', cycle=1), dict(kind='buffer', capacity=2, delay=0)]),
           ('G>|G<', [dict(kind='gate', decider='q_ge'), dict(kind='gate', decider='q_lt')]),
           ('P1|F', [dict(kind='processor', cycle=1), dict(kind='flow')]),
           ('B1|PB2', [dict(kind='buffer', capacity=1, delay=0), dict(kind='batcher', size=2)])]
    return one, two


def topo_family(K=0, horizon=4, subset=None):
    '''Source -> layer A -> layer B -> Sink with full connections between neighbouring layers; every pair of layer
    options (one or two parallel devices of every kind).  Operations: failure/restore of the first processor, block/
    unblock of the first device of layer B.  Yields specs.'''
    one, two = _layer_options()
    opts = one + two
    n = 0
    for ta, la in opts:
        for tb, lb in opts:
            n += 1
            if subset is not None and n % subset[1] != subset[0]:
                continue
            batches = any(d['kind'] == 'batcher' for d in la + lb)
            devs = [src('S', 0.5 if (n % 2) else 1, qualities=[1, 0, 1, 0, 0], values=[2, 1],
                        **({'pattern': [None, 2, None]} if batches and (n % 3 == 0) else {}))]
            prev = ['S']
            procs = []
            layers = []
            for li, layer in (('a', la), ('b', lb)):
                names = []
                for i, d in enumerate(layer):
                    dd = dict(d)
                    dd['name'] = f'{li}{i + 1}'
                    dd['up'] = list(prev)
                    devs.append(dd)
                    names.append(dd['name'])
                    if dd['kind'] == 'processor':
                        procs.append(dd['name'])
                prev = names
                layers.append(names)
            devs.append(sink('K', prev, 1 if n % 4 == 0 else 0))
            ops = [('block', layers[1][0], True), ('block', layers[1][0], False)]
            if procs:
                ops += [('fail', procs[0], 0), ('restore', procs[0])]
            yield spec(f'TOPO[{ta}>{tb}|K{K}]', devs, horizon, ops, K)


def QUIET(K=0, horizon=4):
    '''A model that goes quiet long before the horizon (one part, then no event left): runs split after that.'''
    devs = [src('S', 1, 1), proc('M', ['S'], 0.5), sink('K', ['M'])]
    return spec(f'QUIET[K{K}]', devs, horizon, [('adjust', 'S', 1), ('block', 'K', True), ('block', 'K', False)], K)


def GRPPAR(K=0, horizon=6, ops=None, resources=False):
    '''A shared group of two PARALLEL machines with different cycle times (input and output override), used by two
    paths: parts overtake each other inside the group, so they do not leave in LIFO order.'''
    kw = {'resources': {'r': 1}} if resources else {}
    devs = [proc('M1', [], 1, **kw), proc('M2', [], 3, **kw), group('G', ['M1', 'M2'], ['M1', 'M2'], ['M1', 'M2']),
            src('S1', 1), src('S2', 2), path('a', 'G', ['S1']), path('b', 'G', ['S2']),
            sink('K1', ['a']), sink('K2', ['b'], 1)]
    if ops is None:
        ops = [('fail', 'M1', 0), ('restore', 'M1'), ('block', 'b', True), ('block', 'b', False)]
        if resources:
            ops += [('addres', 'r', -1), ('addres', 'r', 1)]
    s = spec(f'GRPPAR[{"res," if resources else ""}K{K}]', devs, horizon, ops, K)
    if resources:
        s['pools'] = {'r': 1}
    return s


# ---------------------------------------------------------------------------- rows added after the second seeded round

def GRP_BLOCKED(K=0, horizon=9, ops=None):
    '''A group path whose input is blocked (scripted) while the machine inside holds a part that the slow device
    behind the path refuses; the device frees up during the blocked interval; the path is unblocked later.'''
    devs = [proc('M', [], 1), group('G', ['M']), src('S', 1), path('gp', 'G', ['S']), proc('D', ['gp'], 5), sink('K', ['D'])]
    if ops is None:
        ops = [('fail', 'D', 0), ('restore', 'D'), ('block', 'D', True), ('block', 'D', False)]
    s = spec(f'GRPBLOCKED[K{K}]', devs, horizon, ops, K)
    s['script'] = [[4, 2, ['block', 'gp', True]], [8, 2, ['block', 'gp', False]]]
    return s


def GRPBATCH(K=0, horizon=5, ops=None):
    '''Batches (from the source and re-batched) entering a shared group through a group path.'''
    devs = [proc('M', [], 1), group('G', ['M']), src('S', 1, pattern=[2, None, 3]), path('a', 'G', ['S']),
            batcher('PB', ['a'], 2), path('b', 'G', ['PB']), sink('K', ['b'])]
    if ops is None:
        ops = [('fail', 'M', 0), ('restore', 'M'), ('block', 'b', True), ('block', 'b', False)]
    return spec(f'GRPBATCH[K{K}]', devs, horizon, ops, K)


def EMPTYBATCH(K=0, horizon=5, ops=None):
    '''Empty batches travelling without any re-batching: source -> machine -> buffer -> sink, and straight to a sink.'''
    devs = [src('S', 1, pattern=[0, 2, None, 0]), proc('P', ['S'], 0.5), buf('B', ['P'], 3), sink('K', ['B']),
            src('S2', 1, pattern=[None, 0, 0, 1]), sink('K2', ['S2'])]
    if ops is None:
        ops = [('fail', 'P', 0), ('restore', 'P'), ('block', 'K', True), ('block', 'K', False)]
    return spec(f'EMPTYBATCH[K{K}]', devs, horizon, ops, K)


def TWOSRC(K=0, horizon=5, eps=0, delay=0, ops=None):
    '''Two sources delivering into one buffer at the same instant (eps=0) or a float-noise apart (eps>0, with a
    minimum delay: the second part must not leave with the first).'''
    devs = [src('S1', 1), src('S2', 1 + eps), buf('B', ['S1', 'S2'], 4, delay), proc('M', ['B'], 2 if not eps else 0),
            sink('K', ['M'])]
    if ops is None:
        ops = [('block', 'M', True), ('block', 'M', False)]
    kw = {'positions': ['pre', 'end']} if eps else {}
    return spec(f'TWOSRC[eps{eps},d{delay},K{K}]', devs, horizon, ops, K, **kw)


def FLOATNOISE(K=0, horizon=0.75, ops=None):
    '''Event times that differ only by float rounding: one source with cycle 0.3, one with cycle 0.1 whose third part is
    due at 0.1+0.1+0.1 = 0.30000000000000004; both feed a resource-using machine.  Times that are not EQUAL are not the
    same instant: the earlier event runs first whatever the priorities.'''
    devs = [src('S1', 0.3), src('S2', 0.1), buf('B', ['S1', 'S2'], 6), proc('M', ['B'], 0, resources={'r': 1}), sink('K', ['M'])]
    if ops is None:
        ops = [('addres', 'r', -1), ('addres', 'r', 1)]
    return spec(f'FLOATNOISE[K{K}]', devs, horizon, ops, K, pools={'r': 1}, positions=['pre', 'end'])


def DELAY01_LONG(K=0, horizon=6):
    '''Non-dyadic minimum delay over several time units: release times that round the wrong way must not make the
    buffer loop inside one instant.'''
    devs = [src('S', 1), buf('B', ['S'], None, 0.1), sink('K', ['B'])]
    return spec(f'DELAY01LONG[K{K}]', devs, horizon, [('block', 'K', True), ('block', 'K', False)], K, positions=['pre', 'end'])


def GATE_NONE(K=0, horizon=6, ops=None):
    '''Complementary gates whose predicates answer "no" with None instead of False.'''
    devs = [src('S', 1, qualities=[1, 0, 0, 1, 0]), proc('P', ['S'], 1),
            gate('Gge', ['P'], 'q_ge_none'), gate('Glt', ['P'], 'q_lt_none'),
            proc('A', ['Gge'], 1), sink('K1', ['A']), proc('Bm', ['Glt'], 1), sink('K2', ['Bm'])]
    if ops is None:
        ops = [('fail', 'A', 0), ('restore', 'A'), ('block', 'K1', True), ('block', 'K1', False)]
    return spec(f'GATENONE[K{K}]', devs, horizon, ops, K)


def MAINT_SCRIPT(K=0, horizon=8, ops=None, probes=0):
    '''One machine with a far-future failure scheduled early (so it owns two pending events) and a scripted
    maintenance shutdown/restore in the first cycle; injected operations on top.'''
    wo = {'x': [1, 1.5, 3], 'y': [1, 0, 0]}
    devs = [src('S', 1), proc('M1', ['S'], 2, wo=wo), sink('K', ['M1']), maint(1)]
    if ops is None:
        ops = [('shutdown', 'M1'), ('restore', 'M1'), ('wo', 'M1', 'x'), ('fail', 'M1', 0)]
    s = spec(f'MAINTSCRIPT[K{K}]', devs, horizon, ops, K)
    s['script'] = [[0.5, 2, ['fail', 'M1', 6.75]], [1.5, 2, ['shutdown', 'M1']], [2.5, 2, ['restore', 'M1']]]
    s['probes'] = probes
    return s


def INSTANT(K=0, horizon=6, ops=None):
    '''A machine whose failure callback restores it at once (zero-time auto-recover): the part in process is lost, the
    machine is operational and empty again within the same event.'''
    devs = [src('S', 1), proc('M1', ['S'], 2, instant_repair=True), sink('K', ['M1'])]
    if ops is None:
        ops = [('fail', 'M1', 0), ('fail', 'M1', 1), ('shutdown', 'M1'), ('restore', 'M1')]
    s = spec(f'INSTANT[K{K}]', devs, horizon, ops, K)
    s['probes'] = 1
    return s


def MAINT3_SCRIPT(K=0, horizon=4, ops=None):
    '''Three machines, maintainer capacity 2: an order that fills the maintainer is in progress (scripted) while two
    smaller orders for two other machines queue behind it; both are released by the SAME scan when it finishes.'''
    wo = {'x': [2, 1.5, 1], 'y': [1, 1, 0]}
    devs = [src('S', 1), proc('M1', ['S'], 1, wo=wo), proc('M2', ['S'], 1, wo=wo), proc('M3', ['S'], 1, wo=wo),
            sink('K', ['M1', 'M2', 'M3']), maint(2)]
    if ops is None:
        ops = [('fail', 'M2', 0), ('restore', 'M2')]
    s = spec(f'MAINT3SCRIPT[K{K}]', devs, horizon, ops, K)
    s['script'] = [[0.5, 2, ['wo', 'M1', 'x']], [0.75, 2, ['wo', 'M2', 'y']], [1.25, 2, ['wo', 'M3', 'y']]]
    return s


def MAINT4_SCRIPT(K=0, horizon=5, ops=None):
    '''Two overlapping orders on two machines where the one started later finishes first (scripted), then a further order
    with another tag for the machine whose long order is still running.'''
    wo = {'l': [1, 3, 0], 's': [1, 1, 0], 't': [1, 0.5, 0]}
    devs = [src('S', 1), proc('M1', ['S'], 1, wo=wo), proc('M2', ['S'], 1, wo=wo), sink('K', ['M1', 'M2']), maint(2)]
    if ops is None:
        ops = [('fail', 'M2', 0), ('restore', 'M2'), ('wo', 'M2', 't')]
    s = spec(f'MAINT4SCRIPT[K{K}]', devs, horizon, ops, K)
    s['script'] = [[0.5, 2, ['wo', 'M1', 'l']], [1, 2, ['wo', 'M2', 's']], [2.5, 2, ['wo', 'M1', 't']]]
    return s


def MAINT2_SCRIPT(K=0, horizon=8, ops=None):
    '''Two machines: M2 is under scripted maintenance with a part in process while operations hit M1.'''
    devs = [src('S', 1), proc('M1', ['S'], 1), buf('B', ['M1'], 2), proc('M2', ['B'], 2), sink('K', ['M2'])]
    if ops is None:
        ops = [('fail', 'M1', 0), ('restore', 'M1'), ('shutdown', 'M1')]
    s = spec(f'MAINT2SCRIPT[K{K}]', devs, horizon, ops, K)
    s['script'] = [[3, 2, ['shutdown', 'M2']], [5, 2, ['restore', 'M2']]]
    return s


def VALUE0(K=0, horizon=5, ops=None):
    '''A zero-cycle processor whose finish callback changes value and quality (processing happens inside the
    acceptance), bookings made directly on the sink, a zero-duration work order with a cost.'''
    wo = {'z': [0, 0, 2]}
    devs = [src('S', 1, values=[10, 4]), proc('P0', ['S'], 0, dv=3, dq=-0.5, wo=wo), proc('P1', ['P0'], 1, dv=1),
            sink('K', ['P1']), maint(1, value=10)]
    if ops is None:
        ops = [('addvalue', 'K', 3), ('addvalue', 'K', -1), ('wo', 'P0', 'z'), ('fail', 'P1', 0)]
    return spec(f'VALUE0[K{K}]', devs, horizon, ops, K)


def FANTOGGLE(K=0, horizon=9, ops=None):
    '''Two parallel machines; the input of the slow one is blocked and unblocked (scripted) while it is busy; the fast
    one becomes idle in between; later both are idle and a part arrives: the one idle longest gets it.'''
    devs = [src('S', 2), proc('M1', ['S'], 5.5), proc('M2', ['S'], 1), sink('K', ['M1', 'M2'])]
    if ops is None:
        ops = [('fail', 'M2', 0), ('restore', 'M2')]
    s = spec(f'FANTOGGLE[K{K}]', devs, horizon, ops, K)
    s['script'] = [[3, 2, ['block', 'M1', True]], [3.25, 2, ['block', 'M1', False]]]
    return s


def FANFLOW(K=0, horizon=2.25, ops=None):
    '''A buffer that releases two parts in one event (two sources deliver at the same instant) to junctions fronting
    machines with different idle times: the ranking has to be taken afresh for every part.'''
    devs = [src('S1', 1), src('S2', 1), src('S3', 1), buf('B', ['S1', 'S2', 'S3'], 6), flow('F1', ['B']), flow('F2', ['B']),
            proc('M1', ['F1'], 0.5), proc('M2', ['F1'], 0.875), proc('M3', ['F2'], 0.625), sink('K', ['M1', 'M2', 'M3'])]
    return spec(f'FANFLOW[K0]', devs, horizon, [], 0)          # tie orders only: three sources at one instant branch enough


def FANTOGGLE2(K=0, horizon=9, ops=None):
    '''The slow machine's input is blocked (scripted) while it is busy, it hands its part on INSIDE the blocked interval,
    the fast sibling becomes idle after that, then the block is lifted: the slow one has been idle longer.'''
    devs = [src('S', 2), proc('M1', ['S'], 5.5), proc('M2', ['S'], 1.75), sink('K', ['M1', 'M2'])]
    if ops is None:
        ops = [('fail', 'M2', 0), ('restore', 'M2')]
    s = spec(f'FANTOGGLE2[K{K}]', devs, horizon, ops, K)
    s['script'] = [[3, 2, ['block', 'M1', True]], [7.875, 2, ['block', 'M1', False]]]
    return s


def FANRES(K=0, horizon=11, ops=None):
    '''Two parallel machines, one of which needs a resource that a third line holds for a long while: the starved machine
    is offered parts and refuses them, its sibling works; once the resource is free both are idle and a part arrives:
    the starved one has been idle longest.'''
    devs = [src('S', 3.5), proc('M1', ['S'], 1, resources={'r': 1}), proc('M2', ['S'], 1), sink('K', ['M1', 'M2']),
            src('S2', 1, budget=1), proc('X', ['S2'], 8, resources={'r': 1}), sink('KX', ['X'])]
    if ops is None:
        ops = [('fail', 'M2', 0), ('restore', 'M2')]
    return spec(f'FANRES[K{K}]', devs, horizon, ops, K, pools={'r': 1})


def PASS_WINDOW(K=0, horizon=6, ops=None):
    '''A maintenance shutdown that begins between the end of a cycle and the hand-over of the finished part (scripted,
    custom priority between FINISH_PROCESSING and PASS_PART), ends later (scripted); faults are injected on top.  The
    finished part is kept and leaves after the restoration.'''
    devs = [src('S', 1), proc('M1', ['S'], 1), sink('K', ['M1'])]
    if ops is None:
        ops = [('fail', 'M1', 0), ('restore', 'M1'), ('block', 'K', True), ('block', 'K', False)]
    s = spec(f'PASSWINDOW[K{K}]', devs, horizon, ops, K)
    s['script'] = [[2, 7.5, ['shutdown', 'M1']], [3.5, 2, ['restore', 'M1']]]
    s['probes'] = 1
    return s


def RES_RETRY(K=0, horizon=7, ops=None):
    '''A failure callback that puts the machine back into service at once and hands it the part it was working on again
    (a micro-stop with retry); a second line competes for the only unit.'''
    devs = [src('S1', 2), proc('M1', ['S1'], 2, resources={'r': 1}, retry_repair=True), sink('K1', ['M1']),
            src('S2', 2), proc('M2', ['S2'], 2, resources={'r': 1}), sink('K2', ['M2'])]
    if ops is None:
        ops = [('fail', 'M1', 0), ('fail', 'M1', 1), ('addres', 'r', 1), ('addres', 'r', -1)]
    return spec(f'RESRETRY[K{K}]', devs, horizon, ops, K, pools={'r': 1})


def FANFAIL(K=2, horizon=8, ops=None):
    '''Parallel machines behind one source where one of them fails while idle and is repaired: from then on it has
    been waiting for a part since the repair, not since before the failure.'''
    devs = [src('S', 2), proc('M1', ['S'], 1), proc('M2', ['S'], 1), sink('K', ['M1', 'M2'])]
    if ops is None:
        ops = [('fail', 'M1', 0), ('restore', 'M1')]
    return spec(f'FANFAIL[K{K}]', devs, horizon, ops, K)


def RES2(K=0, horizon=6, ops=None):
    '''Two parallel processors holding one unit each of the SAME pool (capacity 2); the capacity is dropped below
    what is held and raised again.'''
    devs = [src('S', 1), proc('M1', ['S'], 2, resources={'r': 1}), proc('M2', ['S'], 3, resources={'r': 1}),
            proc('M3', ['S'], 1, resources={'r': 1}), sink('K', ['M1', 'M2', 'M3'])]
    if ops is None:
        ops = [('addres', 'r', -2), ('addres', 'r', -1), ('addres', 'r', 1), ('fail', 'M1', 0), ('restore', 'M1')]
    return spec(f'RES2[K{K}]', devs, horizon, ops, K, pools={'r': 2})


# ---------------------------------------------------------------------------- rows added after the third seeded round

def GRPIN(K=0, horizon=6, ops=None):
    '''A group with two parallel input machines (input override) and a final device that is the group's default output.'''
    devs = [proc('A1', [], 1), proc('A2', [], 2), proc('F', ['A1', 'A2'], 1),
            group('G', ['A1', 'A2', 'F'], ['A1', 'A2'], None),
            src('S', 0.5), path('a', 'G', ['S']), sink('K', ['a'])]
    if ops is None:
        ops = [('fail', 'A1', 0), ('restore', 'A1'), ('block', 'a', True), ('block', 'a', False)]
    return spec(f'GRPIN[K{K}]', devs, horizon, ops, K)


def REGRADE(K=1, horizon=6, ops=None):
    '''Complementary gates behind a machine; the part waiting in the machine's output is re-graded while both
    routes are busy, so the SAME part is offered to a gate twice with a different answer due.'''
    devs = [src('S', 1, qualities=[0, 0, 1, 0]), proc('P', ['S'], 1),
            gate('Gge', ['P'], 'q_ge'), gate('Glt', ['P'], 'q_lt'),
            proc('A', ['Gge'], 3), sink('K1', ['A']), proc('Bm', ['Glt'], 3), sink('K2', ['Bm'])]
    if ops is None:
        ops = [('requal', 'P', 1), ('requal', 'P', 0), ('fail', 'Bm', 0), ('restore', 'Bm')]
    return spec(f'REGRADE[K{K}]', devs, horizon, ops, K)


def FANGATE(K=2, horizon=8, ops=None):
    '''Parallel candidates of which one sits behind a pass-through gate whose input is blocked and unblocked.'''
    devs = [src('S', 2), gate('G', ['S'], 'all'), proc('M1', ['G'], 1), proc('M2', ['S'], 3), sink('K', ['M1', 'M2'])]
    if ops is None:
        ops = [('block', 'G', True), ('block', 'G', False)]
    return spec(f'FANGATE[K{K}]', devs, horizon, ops, K)


def RES3(K=0, horizon=7, ops=None):
    '''Three processors behind one source competing for ONE unit: two of them wait in the queue of the pool.'''
    devs = [src('S', 0.5), proc('M1', ['S'], 2, resources={'r': 1}), proc('M2', ['S'], 2, resources={'r': 1}),
            proc('M3', ['S'], 2, resources={'r': 1}), sink('K', ['M1', 'M2', 'M3'])]
    if ops is None:
        ops = [('block', 'M2', True), ('block', 'M2', False), ('shutdown', 'M2'), ('restore', 'M2'), ('fail', 'M2', 0)]
    return spec(f'RES3[K{K}]', devs, horizon, ops, K, pools={'r': 1})


def BLOCKED_OUT_SCRIPT(K=0, horizon=8, ops=None):
    '''A finished part refused by a slow consumer; the machine is shut down (scripted) while it waits, the consumer
    frees up during the outage, the machine is restored afterwards.'''
    devs = [src('S', 1), proc('M1', ['S'], 1), sink('K', ['M1'], 3)]
    if ops is None:
        ops = [('fail', 'M1', 0), ('block', 'K', True), ('block', 'K', False)]
    s = spec(f'BLOCKEDOUTSCRIPT[K{K}]', devs, horizon, ops, K)
    s['script'] = [[3.5, 2, ['shutdown', 'M1']], [5.5, 2, ['restore', 'M1']]]
    s['probes'] = 3
    return s


def BUFGATE(K=0, horizon=6, ops=None):
    '''A buffer in front of complementary gates: whether the head is refused depends on the part.'''
    devs = [src('S', 0.5, qualities=[0, 0, 1, 0, 1]), buf('B', ['S'], 3), gate('Gge', ['B'], 'q_ge'), gate('Glt', ['B'], 'q_lt'),
            proc('A', ['Gge'], 1), proc('Bm', ['Glt'], 3), sink('K', ['A', 'Bm'])]
    if ops is None:
        ops = [('fail', 'A', 0), ('restore', 'A')]
    return spec(f'BUFGATE[K{K}]', devs, horizon, ops, K)


def SINKOFF(K=0, horizon=6, ops=None):
    '''A sink whose nominal cycle time is 0 but whose cycles are stretched by one-shot offsets (receive callback), and
    one whose cycle time is changed per part, 0 included: the upstream machine blocks during the stretched cycle and
    must be served when it ends.'''
    devs = [src('S', 0.5), proc('M1', ['S'], 0.5), sink('K', ['M1'], 0, offsets=[1.5, 0, 0.5]),
            src('S2', 1), sink('K2', ['S2'], 2, cycles=[2, 0, 1])]
    if ops is None:
        ops = [('block', 'K', True), ('block', 'K', False), ('cycle', 'K2', 0), ('cycle', 'K', 1)]
    return spec(f'SINKOFF[K{K}]', devs, horizon, ops, K)


def OFFSETS2(K=0, horizon=7, ops=None):
    '''Several one-shot offsets accumulated for ONE cycle (intermediate sums below -cycle_time), cycle time raised afterwards.'''
    devs = [src('S', 1), proc('M1', ['S'], 2, cycles=[2, 3, 1], offsets=[[-3, 2], [-4, 3.5], [1, -0.5]]), sink('K', ['M1'])]
    if ops is None:
        ops = [('shutdown', 'M1'), ('restore', 'M1')]
    return spec(f'OFFSETS2[K{K}]', devs, horizon, ops, K)


def VALUE_FRAC(K=0, horizon=5, ops=None):
    '''Amounts with many decimals booked repeatedly (deliberately not dyadic), a price that changes from order to order,
    two maintainers with the same user-given name.'''
    wo = {'x': [1, 0.5, [3, 5, 1.25]]}
    spare = maint(1, name='mt_spare', value=7)
    spare['asset_name'] = 'mt'
    spare['spare'] = True
    devs = [spare, src('S', 0.5, values=[1 / 3, 0.1234567891234, 2 / 7]), proc('P1', ['S'], 0.5, dv=1 / 7, wo=wo, auto_repair='x'),
            sink('K', ['P1']), maint(1, value=10)]
    if ops is None:
        ops = [('wo', 'P1', 'x'), ('fail', 'P1', 0)]
    return spec(f'VALUEFRAC[K{K}]', devs, horizon, ops, K)


def INITCREATE(K=0, horizon=4, creates=(15, 7), name=''):
    '''An asset created from inside another asset's initialize(): a scheduler whose start-up action (run during the
    one-time initialisation of the assets) creates a sink and a periodic sensor.'''
    devs = [src('S', 1), proc('M1', ['S'], 1), sink('K', ['M1']), obj('o1'),
            {'kind': 'scheduler', 'name': 'A', 'schedule': [[1, 'a'], [1, 'b']], 'cyclical': True,
             'targets': [['o1', 'creator']], 'creates': list(creates)}]
    s = spec(f'INITCREATE{name}[K{K}]', devs, horizon, [('fail', 'M1', 0), ('restore', 'M1')], K)
    s['late'] = LATE_DEVICES
    return s


def EMPTYBATCH_SCRIPT(K=0, horizon=6):
    '''Items with different part counts (batches of 2, single parts, empty batches) pile up in a buffer behind a sink
    whose input is blocked (scripted) and leave in ONE release call when it is unblocked.'''
    devs = [src('S', 0.5, pattern=[2, None, 0, 3]), buf('B', ['S'], 8), sink('K', ['B'])]
    s = spec(f'EMPTYBATCHSCRIPT[K{K}]', devs, horizon, [('block', 'B', True), ('block', 'B', False)], K)
    s['script'] = [[0.75, 2, ['block', 'K', True]], [3.25, 2, ['block', 'K', False]]]
    return s


def BLOCK_SCRIPT(K=0, horizon=5, ops=None):
    '''The input of a busy machine is blocked and unblocked (scripted) while the fast source already holds the next part.'''
    devs = [src('S', 0.5), proc('M1', ['S'], 1, resources={'r': 1}), sink('K', ['M1'])]
    if ops is None:
        ops = [('addres', 'r', -1), ('addres', 'r', 1), ('block', 'K', True), ('block', 'K', False)]
    s = spec(f'BLOCKSCRIPT[K{K}]', devs, horizon, ops, K, pools={'r': 1})
    s['script'] = [[0.75, 2, ['block', 'M1', True]], [1.25, 2, ['block', 'M1', False]],
                   [2.75, 2, ['block', 'M1', True]], [3.125, 2, ['block', 'M1', False]]]
    return s


def BATCHSLOW(K=0, horizon=13, ops=None):
    '''Batches of 2 re-packed into 3 (every second output leaves a remainder in the input slot) in front of a slow
    machine: the source is refused while the remainder is there and must be woken when it has moved on.'''
    devs = [src('S', 1, pattern=[2]), batcher('PB', ['S'], 3), proc('M', ['PB'], 5), sink('K', ['M'])]
    if ops is None:
        ops = [('fail', 'M', 0), ('restore', 'M')]
    return spec(f'BATCHSLOW[K{K}]', devs, horizon, ops, K)


def RES3L(K=0, horizon=5, ops=None):
    '''Three separate lines sharing ONE unit: A holds it, B and C queue for it in that order, B is shut down (scripted)
    while it waits, A releases: C must be served although B is asked first and cannot take it.'''
    devs = [src('S1', 2), proc('A', ['S1'], 1, resources={'r': 1}), sink('K1', ['A']),
            src('S2', 2.25), proc('B', ['S2'], 1, resources={'r': 1}), sink('K2', ['B']),
            src('S3', 2.5), proc('C', ['S3'], 1, resources={'r': 1}), sink('K3', ['C'])]
    if ops is None:
        ops = [('block', 'C', True), ('block', 'C', False), ('fail', 'A', 0), ('restore', 'A')]
    s = spec(f'RES3L[K{K}]', devs, horizon, ops, K, pools={'r': 1})
    s['script'] = [[2.75, 2, ['shutdown', 'B']], [4.25, 2, ['restore', 'B']]]
    return s
