'''Component worlds: ONE real component (Environment, ResourceManager, Maintainer,
ActionScheduler, sensors, System registry) driven through its public API with a
tiny argument alphabet, in lock-step with an independent reference model.

A component world implements the explorer's world protocol (mc/explorer.py) plus
    replay(path)   linear re-execution of a choice list from a fresh world, going
                   through the real run loop (Environment.run / System.simulate)
                   wherever the path contains a run; used by the determinism gate,
                   the replay artefacts and the E1-vs-linear conformance pass.
Job format: {'kind': 'comp', 'name', 'world': <registered name>, 'params': {...},
             'caps': {...explore caps...}, 'e2': n}
'''
import random

from . import Violation, HarnessError
from . import runner, canon
from .explorer import explore, _Quiet

WORLDS = {}


def world(name):
    def deco(cls):
        WORLDS[name] = cls
        cls.world_name = name
        return cls
    return deco


class _OwnedMeta(type):
    '''Worlds that do not manage the library's process-global state themselves (no `_enter`) get it managed here: the
    world is BUILT and every operation is APPLIED with the world's own copy of every class-level / module-level variable
    of the library installed (mc/globalstate.py), so that forks of one exploration cannot influence each other through
    state that a change of the library may have hoisted to class scope.'''

    def __call__(cls, *a, **kw):
        if hasattr(cls, '_enter'):
            return super().__call__(*a, **kw)
        from . import globalstate
        gvals = globalstate.fresh()
        gs = globalstate.enter(gvals)
        try:
            obj = super().__call__(*a, **kw)
        finally:
            globalstate.leave(gvals, gs)
        obj.gvals = gvals
        return obj


class CompWorld(metaclass=_OwnedMeta):
    '''Base class.  Subclasses define menu/apply_op/done/final and keep everything that
    can influence the future (the real component, the reference model, counters) in
    attributes that are picklable and canonicalisable.'''
    _canon_skip = ('facts', 'budget', 'params', 'last_tie_size', 'nops', 'wcount', 'trail')

    def __init__(self, params):
        self.params = params
        self.trail = []
        self.budget = params.get('depth', 4)
        self.facts = []
        self.last_tie_size = 0
        self.nops = 0

    def restrict_first(self, labels):
        '''Jobs are partitioned by the first operation (params['first'] = index into the root menu) so
        that one world can use several cores; the union of the parts is the whole space.'''
        f = self.params.get('first')
        if f is not None and self.nops == 0:
            return [labels[f]] if f < len(labels) else []
        return labels

    def digest(self):
        return canon.digest(self)

    def done(self):
        return self.budget <= 0

    def final(self):
        pass

    # The tie-break weights are the library's only use of the random module.  Which event of a tie group is DISPATCHED is
    # chosen by the explorer; the POSITION of tied events inside the queue (irrelevant to a correct library) is owned too:
    # weights come from a counter kept in the world, increasing ('inc': later events sort after earlier ties) or decreasing
    # ('dec'), so the same choice list always produces the same run.  The counter is not part of the digest.
    wcount = 0

    def _next_weight(self):
        self.wcount += 1
        w = self.wcount * 1e-9
        return w if self.params.get('weights', 'inc') == 'inc' else 1.0 - w

    def recipe(self):
        '''Replay-based fork for a world that cannot be pickled (mc.explorer.ReplaySnap).'''
        from .explorer import ReplaySnap
        params = self.params
        return ReplaySnap(type(self), lambda: (params,), {}, self.trail)

    def apply(self, label):
        self.facts = []
        self.trail.append(tuple(label))
        self.nops += 1
        saved = random.random
        random.random = self._next_weight
        from .line import _EventWatchdog
        own = not hasattr(self, '_enter') and getattr(self, 'gvals', None) is not None
        if own:
            from . import globalstate
            gs = globalstate.enter(self.gvals)
        try:
            with _EventWatchdog(lambda: f'operation {tuple(label)}'):
                self.apply_op(tuple(label))
        finally:
            random.random = saved
            if own:
                globalstate.leave(self.gvals, gs)

    @classmethod
    def replay(cls, params, path):
        w = cls(params)
        n = 0
        for label in path:
            n += 1
            try:
                w.apply(label)
            except BaseException as e:
                e.mc_steps = n
                raise
        if w.done():
            w.final()
        return w.digest().hex()


def run_comp_job(job, seed):
    cls = WORLDS[job['world']]
    params = job['params']
    caps = dict(job.get('caps', {}))
    name = job['name']
    try:
        with _Quiet():
            w = cls(params)
    except HarnessError:
        raise
    except Exception as e:
        if isinstance(e, Violation):
            clause, detail = e.clause, e.detail
        else:
            clause, detail = runner.classify_exception(e)
        return {'result': {'scenario': name, 'states': 1, 'transitions': 0, 'facts': {},
                           'branching_states': 0, 'max_tie_group': 0, 'distinct_final_states': 0,
                           'capped': None, 'violations': 1},
                'violations': [{'clause': clause, 'detail': 'while building: ' + detail,
                                'path': [], 'scenario': name}], 'validated': 0, 'sample': None}
    res = explore(w, name, seed=seed, **caps)
    validated = 0
    sample = None
    n_e2 = job.get('e2', 20)
    e2_viol = []
    with _Quiet():
        for dg, path in list(res.terminals.items())[:n_e2]:
            try:
                d2 = cls.replay(params, path)
            except Violation as v:
                # only the real run loop (Environment.run / System.simulate) shows this one
                if len(e2_viol) < 5:
                    e2_viol.append({'clause': v.clause, 'detail': 'through the real run loop: ' + v.detail,
                                    'path': [list(x) for x in path], 'scenario': name})
                continue
            if d2 != dg:
                raise HarnessError(f'{name}: fork-derived final state {dg} but the linear replay through the real '
                                   f'run loop reached {d2} on the same choice list {path}')
            validated += 1
            if sample is None:
                sample = [list(x) for x in path]
    rj = res.to_json()
    rj['violations'] += len(e2_viol)
    return {'result': rj, 'violations': res.violations + e2_viol, 'validated': validated, 'sample': sample}


def replay_comp(job, path):
    cls = WORLDS[job['world']]
    try:
        with _Quiet():
            dg = cls.replay(job['params'], [tuple(x) for x in path])
        return {'final': dg}
    except Violation as v:
        return {'clause': v.clause, 'detail': v.detail, 'step': getattr(v, 'mc_steps', 0)}
    except HarnessError:
        raise
    except Exception as e:
        clause, detail = runner.classify_exception(e)
        return {'clause': clause, 'detail': detail, 'step': getattr(e, 'mc_steps', 0)}


runner.register('comp', run_comp_job, replay_comp)


def comp_job(world_name, name, params, e2=20, **caps):
    return {'kind': 'comp', 'name': name, 'world': world_name, 'params': params, 'e2': e2, 'caps': caps}


def split_first(world_name, name, params, e2=20, **caps):
    '''One job per root-menu entry.'''
    try:
        with _Quiet():
            n = len(WORLDS[world_name](params).menu())
    except Violation:
        return [comp_job(world_name, name, params, e2=e2, **caps)]     # the job itself reports the violation
    out = []
    for i in range(n):
        p = dict(params)
        p['first'] = i
        out.append(comp_job(world_name, f'{name}/first={i}', p, e2=e2, **caps))
    return out
