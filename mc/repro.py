'''C14 (b, c): reproducibility of whole runs with the REAL random tie-breaks.

Job kind 'repro' with modes
  'seed'   every scenario x seed x asset-id offset: same seed -> identical recorded data and final counters up to the
           numbering of asset ids (runs at offset 0, 1, 7; each twice); different seeds must be able to differ somewhere
           (vacuity guard).  Enumerated grid, each cell one real System.simulate() -- no explorer involved.
           (A split run with the REAL RNG is NOT expected to equal the unsplit one: the extra TERMINATE event draws a
           random weight and shifts the stream; the property fixes the tie-break choices, which is what mode (a),
           the split-invariance monitor of the explorer, does.)
  'hash'   the same run in two fresh interpreters with different PYTHONHASHSEED: identical normalised result.
  'smt'    System.simulate_multiple_times: n in 1..4, max_processes in {0,1,2,3,None}; for max_processes != 0 a controllable
           executor is substituted for concurrent.futures.ProcessPoolExecutor inside simprocesd.model.system and the futures
           are completed in EVERY permutation; result i must be the system of index i and equal (normalised) to the in-process
           run of index i.
  'pool'   the same grid with REAL process pools (conformance only: the OS schedules the workers).
'''
import itertools
import json
import os
import random
import subprocess
import sys
import time

from . import Violation, HarnessError, VERIF, REPO
from . import runner
from .explorer import _Quiet

from simprocesd.model import System, ResourceManager
import simprocesd.model.system as sysmod
from simprocesd.model.factory_floor import (Asset, PartGenerator, PartHandler, PartProcessor, Source, Buffer, Sink,
                                            Maintainer, DecisionGate)


# ----------------------------------------------------------------------------- models (module level: picklable)

def _q_ge(gate, part):
    return part.quality >= 0.5


REPAIR_TAG = ('fix', 1)       # a work-order tag that is not an interned object


class _Repair:
    '''Requests the repair twice: with the tag the program handed to the simulation function (through the extra
    arguments of simulate_multiple_times: the very object below when run in-process, an equal copy in a worker) and
    with the module-level constant.  The second request is a duplicate and is refused -- wherever the run executes.'''

    def __init__(self, mt, tag=None):
        self.mt = mt
        self.tag = REPAIR_TAG if tag is None else tag

    def __call__(self, dev, is_failure, part):
        if is_failure:
            self.mt.create_work_order(dev, self.tag)
            self.mt.create_work_order(dev, REPAIR_TAG)


class _RandomFaults:
    '''Restored callback (and start-up event): the next failure comes after a number of time units drawn with the
    LIBRARY's own stochastic helper (documented to use Python's random module), as examples/SingleMachineWithFaults.py.'''

    def __init__(self, dev=None):
        self.dev = dev
        self.__name__ = 'rearm'

    def __call__(self, dev=None, *a):
        from simprocesd.utils import geometric_distribution_sample
        dev = dev if dev is not None else self.dev
        dev.schedule_failure(dev.env.now + geometric_distribution_sample(0.4, 2), 'random fault')


class _ArmAll:
    def __init__(self, devs):
        self.devs = devs
        self.__name__ = 'arm'

    def __call__(self):
        for d in self.devs:
            _RandomFaults(d)()


class _SlowRepair(PartProcessor):
    '''A machine whose repair takes 5 time units (module level: picklable): its work order is still in progress when a
    short horizon ends, so the returned System carries the maintainer's pending FINISH_WORK event.'''

    def get_work_order_duration(self, tag):
        return 5


def build_model(kind, tag=None):
    '''Builds a model in the ACTIVE system from library classes only (default PartGenerator: part ids come from the
    global counter).  Merge topologies make the random tie-breaks decide outcomes.'''
    if kind == 'fan':
        s = Source('S', PartGenerator('p', value=2), 1)
        m1 = PartProcessor('M1', [s], 2)
        m2 = PartProcessor('M2', [s], 2)
        b = Buffer('B', [m1, m2], 0, 2)
        m3 = PartProcessor('M3', [b], 1)
        Sink('K', [m3], collect_parts=True)
        m1.schedule_failure  # noqa (initialised later)
    elif kind == 'merge_default':
        # default names (<Class>_<id>): anything that orders assets by name depends on the id offset
        s1 = Source(None, PartGenerator('a'), 1)
        s2 = Source(None, PartGenerator('b'), 1)
        m = PartProcessor(None, [s1, s2], 1)
        Sink('K', [m], collect_parts=True)
    elif kind == 'merge':
        s1 = Source('S1', PartGenerator('a'), 1)
        s2 = Source('S2', PartGenerator('b'), 1)
        m = PartProcessor('M', [s1, s2], 1)        # two sources compete for one machine at every instant
        Sink('K', [m], collect_parts=True)
    elif kind == 'maint':
        # the machine that fails is the FIRST asset of the model (it gets the lowest id there is at that offset)
        m1 = PartProcessor('M1', None, 1)
        mt = Maintainer('mt', 1)
        s = Source('S', PartGenerator('p'), 1)
        m1.set_upstream([s])
        m2 = _SlowRepair('M2', [s], 1)
        for m in (m1, m2):
            m.add_shutdown_callback(_Repair(mt, tag))
        Sink('K', [m1, m2], collect_parts=True)
    elif kind == 'faults':
        mt = Maintainer('mt', 1)
        s = Source('S', PartGenerator('p'), 1)
        m1 = PartProcessor('M1', [s], 1)
        m2 = PartProcessor('M2', [s], 2)
        for m in (m1, m2):
            m.add_shutdown_callback(_Repair(mt, tag))
            m.add_restored_callback(_RandomFaults())
        Sink('K', [m1, m2], collect_parts=True)
    elif kind == 'group2':
        # a shared machine used by two paths with different upstreams: both sources block on the group input at once
        from simprocesd.model.factory_floor import Group
        m = PartProcessor('M', None, 1)
        g = Group('G', [m])
        s1 = Source('S1', PartGenerator('a'), 0.5)
        s2 = Source('S2', PartGenerator('b'), 0.5)
        s3 = Source('S3', PartGenerator('c'), 0.5)
        p1 = g.get_new_group_path('p1', [s1])
        p2 = g.get_new_group_path('p2', [s2])
        p3 = g.get_new_group_path('p3', [s3])
        Sink('K1', [p1], collect_parts=True)
        Sink('K2', [p2], collect_parts=True)
        Sink('K3', [p3], collect_parts=True)
    elif kind == 'res':
        s = Source('S', PartGenerator('p'), 0.5)
        m1 = PartProcessor('M1', [s], 1, resources_for_processing={'r': 1})
        m2 = PartProcessor('M2', [s], 1, resources_for_processing={'r': 1})
        Sink('K', [m1, m2], collect_parts=True)
    else:
        raise HarnessError(kind)


def prepare(system, kind):
    if kind == 'maint':
        # failures are scheduled through the public API once the assets are initialised (first event of the run)
        m1 = system.find_assets(name='M1')[0]
        m2 = system.find_assets(name='M2')[0]
        system.env.schedule_event(0, -5, _Fail(m1, m2), 5)
    if kind == 'res':
        system.resource_manager.add_resources('r', 1)
    if kind == 'faults':
        # ONE start-up event (its tie-break weight is drawn before the program seeds the generator, so two of them
        # would run in an order the seed does not determine)
        system.env.schedule_event(0, -5, _ArmAll([system.find_assets(name=n)[0] for n in ('M1', 'M2')]), 5)


class _Fail:
    def __init__(self, m1, m2):
        self.m1, self.m2 = m1, m2
        self.__name__ = 'fail'

    def __call__(self):
        self.m1.schedule_failure(1.5, 'x')       # in the middle of a part: a processing timer is pending
        self.m2.schedule_failure(2, 'y')


def normalise(system):
    '''Recorded data + final counters with asset ids replaced by their order of first appearance; default asset names
    (<Class>_<id>) contain the id and are renumbered the same way (by registration order).'''
    ids = {}

    def nid(i):
        if i is None:
            return None
        return ids.setdefault(i, len(ids))

    names = {}
    for k, a in enumerate(system._assets):
        if a.name == f'{type(a).__name__}_{a.id}':
            names[a.name] = f'{type(a).__name__}_#{k}'

    def nn(x):
        return names.get(x, x) if isinstance(x, str) else x

    out = []
    sd = system.simulation_data
    for lab in sorted(sd):
        for name in sorted(sd[lab], key=lambda x: str(nn(x))):
            for r in sd[lab][name]:
                r = [nn(x) for x in r]
                if lab in ('received_part', 'produced_part', 'supplied_new_part', 'device_failure'):
                    r[1] = nid(r[1])
                out.append((lab, nn(name), tuple(r)))
    for a in system._assets:
        row = [type(a).__name__, nn(a.name), a.value]
        if isinstance(a, Sink):
            row += [a.received_parts_count, [(nid(p.id), p.name, [nn(d.name) for d in p.routing_history]) for p in a.collected_parts]]
        if isinstance(a, Source):
            row += [a.produced_parts]
        if isinstance(a, PartProcessor):
            row += [a.uptime, a.utilization_time, a.is_operational()]
        out.append(tuple(row))
    out.append(('now', system.env.now))
    return json.dumps(out, default=str, sort_keys=True)


_RUN_NO = [0]


def one_run(kind, seed, offset, horizon):
    saved = (Asset._id_counter, System._instance, random.getstate())
    try:
        Asset._id_counter = offset
        # whatever the program did with the random module BEFORE it built the model must not matter once it seeds it
        _RUN_NO[0] += 1
        random.seed(7919 * _RUN_NO[0] + offset)
        junk = [object() for _ in range(_RUN_NO[0] % 7)]       # and neither must where objects happen to live
        s = System()
        build_model(kind)
        prepare(s, kind)
        random.seed(seed)
        with _Quiet():
            s.simulate(horizon, print_summary=False)
        return normalise(s)
    finally:
        Asset._id_counter, System._instance = saved[0], saved[1]
        random.setstate(saved[2])


# ----------------------------------------------------------------------------- simulate_multiple_times

def sim_fn(system, index, kind, horizon=0.5, tag=None):
    '''The user's simulation function (module level, picklable); the horizon is passed as a KEYWORD argument through
    simulate_multiple_times (its default is deliberately a different one).'''
    build_model(kind, tag)
    prepare(system, kind)
    system.sim_index = index
    random.seed(1000 + index)
    system.simulate(horizon, print_summary=False)


class FakeFuture:
    def __init__(self, ex, i, fn, args, kwargs):
        self.ex, self.i, self.fn, self.args, self.kwargs = ex, i, fn, args, kwargs
        self.value = None
        self.ran = False

    def run(self):
        if not self.ran:
            import pickle
            # what a worker process does: arguments and result cross the process boundary pickled
            fn, args, kwargs = pickle.loads(pickle.dumps((self.fn, self.args, self.kwargs)))
            self.value = pickle.loads(pickle.dumps(fn(*args, **kwargs)))
            self.ran = True

    def result(self, timeout=None):
        # the workers finish in the order self.ex.order; asking for this result blocks until it is there
        for j in self.ex.order:
            f = self.ex.futures[j]
            f.run()
            if j == self.i:
                break
        return self.value


class FakeExecutor:
    '''Stands in for ProcessPoolExecutor; tasks complete in the order given by FakeExecutor.next_order.'''
    next_order = None
    seen_max_workers = None

    def __init__(self, max_workers=None, *a, **kw):
        FakeExecutor.seen_max_workers = max_workers
        self.futures = []
        self.order = None

    def __enter__(self):
        return self

    def __exit__(self, *a):
        for j in (self.order or range(len(self.futures))):
            self.futures[j].run()
        return False

    def submit(self, fn, *args, **kwargs):
        f = FakeFuture(self, len(self.futures), fn, args, kwargs)
        self.futures.append(f)
        want = FakeExecutor.next_order
        self.order = [j for j in want if j < len(self.futures)] if want else list(range(len(self.futures)))
        if want and len(self.futures) == len(want):
            self.order = list(want)
        return f


def smt_once(kind, horizon, n, max_processes, order):
    saved = (Asset._id_counter, System._instance, random.getstate())
    real = sysmod.concurrent.futures.ProcessPoolExecutor
    try:
        Asset._id_counter = 0
        FakeExecutor.next_order = order
        if order is not None:
            sysmod.concurrent.futures.ProcessPoolExecutor = FakeExecutor
        with _Quiet():
            res = System.simulate_multiple_times(sim_fn, n, max_processes, kind, horizon=horizon, tag=REPAIR_TAG)
        return res
    finally:
        sysmod.concurrent.futures.ProcessPoolExecutor = real
        Asset._id_counter, System._instance = saved[0], saved[1]
        random.setstate(saved[2])


# ----------------------------------------------------------------------------- job

def run_repro_job(job, seed):
    t0 = time.time()
    mode = job['mode']
    kind = job['model']
    horizon = job.get('horizon', 8)
    viol = []
    cells = 0
    facts = {}

    def bad(clause, detail, cell):
        viol.append({'clause': clause, 'detail': detail, 'path': [['cell'] + list(cell)], 'scenario': job['name']})

    if mode == 'seed':
        results = {}
        for sd in job['seeds']:
            base = None
            for off in job['offsets']:
                for rep in (0, 1):
                    cells += 1
                    try:
                        r = one_run(kind, sd, off, horizon)
                    except HarnessError:
                        raise
                    except Exception as e:
                        from . import library_origin
                        where = library_origin(e)
                        if where is None:
                            raise
                        # the model runs at the other offsets: raising here is a difference between the runs
                        r = f'{type(e).__name__} at {where}: {str(e)[:160]}'
                        bad('exception', f'model {kind}, seed {sd}, asset-id offset {off}: {r}', (kind, sd, off, rep))
                        continue
                    if base is None:
                        base = r
                    elif r != base:
                        bad('same_seed', f'model {kind}, seed {sd}: run at asset-id offset {off} (repetition {rep}) differs from the '
                                         f'run at offset {job["offsets"][0]} after normalising asset ids', (kind, sd, off, rep))
            results[sd] = base
        if len(set(results.values())) > 1:
            facts['seeds_give_different_outcomes'] = 1
    elif mode == 'hash':
        outs = []
        for hs in job['hashseeds']:
            env = dict(os.environ, PYTHONHASHSEED=str(hs), SIMPROCESD_REPO=REPO)
            code = (f'import sys; sys.path.insert(0, {VERIF!r}); import mc; from mc import repro; '
                    f'import hashlib; print(hashlib.sha256(repro.one_run({kind!r}, {job["seeds"][0]}, 0, {horizon}).encode()).hexdigest())')
            p = subprocess.run([sys.executable, '-c', code], env=env, capture_output=True, text=True, timeout=600)
            if p.returncode != 0:
                raise HarnessError(f'subprocess failed: {p.stderr[-400:]}')
            outs.append(p.stdout.strip().splitlines()[-1])
            cells += 1
        if len(set(outs)) != 1:
            bad('hash_seed', f'model {kind}: results differ between interpreters with PYTHONHASHSEED {job["hashseeds"]}: {outs}',
                (kind, 'hash'))
        facts['fresh_interpreters_compared'] = 1
    elif mode in ('smt', 'pool'):
        ref = {}
        for n in job['ns']:
            for mp_ in job['max_processes']:
                if mode == 'pool' or mp_ == 0:
                    orders = [None]
                elif n <= 4:
                    orders = [list(p) for p in itertools.permutations(range(n))]
                else:
                    # too many permutations: submission order, its reverse and two rotations (stated in the rule)
                    base = list(range(n))
                    orders = [base, base[::-1], base[3:] + base[:3], base[1::2] + base[0::2]]
                for order in orders:
                    cells += 1
                    try:
                        res = smt_once(kind, horizon, n, mp_, order)
                    except Exception as e:
                        bad('exception', f'simulate_multiple_times(n={n}, max_processes={mp_}) with completion order {order}: '
                                         f'{type(e).__name__}: {e}', (kind, n, mp_, order))
                        continue
                    if not isinstance(res, list) or len(res) != n:
                        bad('result_count', f'n={n}, max_processes={mp_}: returned {len(res) if isinstance(res, list) else res} systems',
                            (kind, n, mp_, order))
                        continue
                    if order is not None and mp_ != 0 and FakeExecutor.seen_max_workers != mp_:
                        bad('max_processes', f'pool created with max_workers={FakeExecutor.seen_max_workers}, asked {mp_}', (kind, n, mp_, order))
                    for i, s in enumerate(res):
                        if getattr(s, 'sim_index', None) != i:
                            bad('index_order', f'n={n}, max_processes={mp_}, completion order {order}: position {i} of the result holds '
                                               f'the system of simulation {getattr(s, "sim_index", None)}', (kind, n, mp_, order))
                            break
                        r = normalise(s)
                        if i not in ref:
                            saved = (Asset._id_counter, System._instance, random.getstate())
                            try:
                                Asset._id_counter = 0
                                with _Quiet():
                                    ref[i] = normalise(System._simulation_helper(sim_fn, i, kind, horizon=horizon, tag=REPAIR_TAG))
                            finally:
                                Asset._id_counter, System._instance = saved[0], saved[1]
                                random.setstate(saved[2])
                        if r != ref[i]:
                            bad('parallel_result', f'n={n}, max_processes={mp_}, completion order {order}: results of simulation {i} '
                                                   f'differ from the in-process run of the same index', (kind, n, mp_, order))
                            break
        facts['completion_orders_enumerated' if mode == 'smt' else 'real_pools_conformance_only'] = 1
    else:
        raise HarnessError(mode)
    res = {'scenario': job['name'], 'states': cells, 'transitions': cells, 'branching_states': 1 if cells > 1 else 0,
           'max_menu': 0, 'max_tie_group': 0, 'distinct_final_states': 0, 'max_depth': 1, 'violations': len(viol),
           'facts': facts, 'capped': None, 'wall_s': round(time.time() - t0, 3)}
    return {'result': res, 'violations': viol[:20], 'validated': cells if not viol else 0, 'sample': None}


def replay_repro(job, path):
    out = run_repro_job(job, 0)
    want = path[0] if path else None
    for v in out['violations']:
        if want is None or v['path'][0] == want:
            return {'clause': v['clause'], 'detail': v['detail'], 'step': 1}
    return {'final': 'ok'}


runner.register('repro', run_repro_job, replay_repro)


def repro_job(name, mode, model, **kw):
    j = {'kind': 'repro', 'name': name, 'mode': mode, 'model': model}
    if mode == 'pool':
        j['main_process'] = True      # real process pools cannot be created from a (daemonic) pool worker
    j.update(kw)
    return j
