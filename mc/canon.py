'''Canonical form + digest of a world (DESIGN.md section 2, "Canonicalisation").

Generic object-graph walk:
  primitives as is; lists/tuples in order; dicts with primitive keys sorted by
  key, other dicts in insertion order; objects as (class, first-visit index,
  sorted __dict__); bound methods as (self, name); partial structurally;
  functions/classes by qualified name.
Dropped: Event.random_weight / message / status (never read by the library
except for ordering inside a tie group, which the explorer owns, and printing).
Dropped too: Environment._trace / _event_trace / _event_index (write-only trace
bookkeeping; the exported trace is checked by the E2 replays of C15).
Normalised: order inside tie groups of Environment._events and the order of
Environment._paused_events (sorted by a key made of primitives only).
Fields named in an object's class attribute `_canon_skip` are skipped (used by
harness classes for constants and per-transition scratch space).
'''
import enum
import functools
import hashlib
import types

from simprocesd.model.simulation import Event, Environment

_PRIMS = (int, float, str, bool, type(None), bytes)
_EVENT_SKIP = frozenset(('random_weight', 'message', 'status'))


def fnum(x):
    '''Stable text of a number (ints and floats that are equal print equal).'''
    if isinstance(x, bool):
        return 'T' if x else 'F'
    if isinstance(x, enum.Enum):
        x = x.value
    if isinstance(x, int):
        return repr(float(x)) if abs(x) < 2 ** 53 else repr(x)
    if isinstance(x, float):
        return repr(x)
    return repr(x)


def action_key(action):
    '''Primitive-only description of an event action.'''
    if isinstance(action, functools.partial):
        inner = action_key(action.func)
        kw = []
        for k in sorted(action.keywords):
            kw.append((k, _argkey(action.keywords[k])))
        return (inner, tuple(_argkey(a) for a in action.args), tuple(kw))
    if isinstance(action, types.MethodType):
        owner = action.__self__
        return (type(owner).__name__, getattr(owner, '_name', getattr(owner, 'name', '')),
                action.__func__.__name__)
    k = getattr(action, 'canon_key', None)
    if k is not None:
        return ('obj', type(action).__name__, k() if callable(k) else k)
    return ('fn', getattr(action, '__qualname__', type(action).__name__))


def _argkey(a):
    if isinstance(a, _PRIMS):
        return repr(a)
    # _WorkOrder and similar: describe by target name and tag
    t = getattr(a, 'target', None)
    if t is not None:
        return ('wo', getattr(t, 'name', type(t).__name__), repr(getattr(a, 'tag', None)),
                repr(getattr(a, 'info', None)))
    n = getattr(a, 'name', None)
    if isinstance(n, str):
        return (type(a).__name__, n)
    return type(a).__name__


def event_key(ev):
    '''Key identifying an event up to interchangeability (primitives only).'''
    return (fnum(ev.time), fnum(float(ev.event_type)), ev.asset_id, action_key(ev.action),
            bool(ev.cancelled), fnum(ev.paused_at) if ev.paused_at is not None else '')


def tie_group(env):
    '''Events equal to the head in (time, event_type).'''
    evs = env._events
    if not evs:
        return []
    h = evs[0]
    out = []
    for e in evs:
        if e.time == h.time and e.event_type == h.event_type:
            out.append(e)
        else:
            break
    return out


def sorted_events(evs):
    return sorted(evs, key=lambda e: (e.time, -float(e.event_type), repr(event_key(e))))


class _Walker:
    '''Emits a flat token list; the digest is blake2b of the joined tokens.'''
    __slots__ = ('out', 'seen', 'n')

    def __init__(self):
        self.out = []
        self.seen = {}
        self.n = 0

    def walk(self, o):
        out = self.out
        t = type(o)
        if t is str:
            out.append('S' + o)
            return
        if t is int:
            out.append('N' + (repr(float(o)) if -9007199254740992 < o < 9007199254740992 else repr(o)))
            return
        if t is float:
            out.append('N' + repr(o))
            return
        if o is None or t is bool:
            out.append(repr(o))
            return
        if t is list or t is tuple:
            # fast path: flat sequences of primitives (data records, value-history entries) in one token
            flat = True
            for x in o:
                tx = type(x)
                if not (tx is int or tx is float or tx is str or x is None or tx is bool or
                        (isinstance(x, enum.IntEnum))):
                    flat = False
                    break
            if flat:
                # ints, equal floats and IntEnum members (priorities) are the same number everywhere in the library
                out.append(('L' if t is list else 'T') +
                           repr([float(x) if (type(x) is int or isinstance(x, enum.IntEnum)) else x for x in o]))
                return
            out.append('[' if t is list else '(')
            walk = self.walk
            for x in o:
                walk(x)
            out.append(']')
            return
        if t is dict:
            out.append('{')
            keys = list(o)
            for k in keys:
                tk = type(k)
                if not (tk is str or tk is int or tk is float or tk is tuple or k is None or tk is bool):
                    break
            else:
                if len(keys) > 1:
                    try:
                        keys.sort()
                    except TypeError:
                        keys.sort(key=repr)
            walk = self.walk
            for k in keys:
                walk(k)
                out.append(':')
                walk(o[k])
            out.append('}')
            return
        if isinstance(o, enum.Enum):
            # IntEnum priorities compare equal to plain numbers everywhere in the library: same token
            v = o.value
            out.append(('N' + repr(float(v))) if isinstance(v, (int, float)) else ('E' + repr(v)))
            return
        if isinstance(o, (int, float)):      # numpy scalars, subclasses
            out.append('N' + repr(float(o)))
            return
        if isinstance(o, bytes):
            out.append('Y' + repr(o))
            return
        oid = id(o)
        idx = self.seen.get(oid)
        if idx is not None:
            out.append('@%d' % idx)
            return
        if isinstance(o, (set, frozenset)):
            out.append('{s')
            for x in sorted(o, key=repr):
                self.walk(x)
            out.append('}')
            return
        if t is types.MethodType:
            out.append('bm' + o.__func__.__name__)
            self.walk(o.__self__)
            return
        if t is functools.partial:
            out.append('partial')
            self.walk(o.func)
            self.walk(o.args)
            self.walk(o.keywords)
            return
        if isinstance(o, (types.FunctionType, types.BuiltinFunctionType, type)):
            out.append('fn' + getattr(o, '__module__', '') + '.' + getattr(o, '__qualname__', repr(o)))
            return
        if isinstance(o, (list, tuple, dict)):
            raise TypeError(f'canon: unsupported container subclass {t}')
        import weakref
        if isinstance(o, (weakref.WeakKeyDictionary, weakref.WeakValueDictionary)):
            # weak containers (a change of the library may introduce them): what is alive now, in insertion order
            out.append('{w')
            for k, v in list(o.items()):
                self.walk(k)
                out.append(':')
                self.walk(v)
            out.append('}')
            return
        if isinstance(o, weakref.WeakSet):
            out.append('{ws')
            for x in sorted(list(o), key=repr):
                self.walk(x)
            out.append('}')
            return
        if isinstance(o, weakref.ReferenceType):
            out.append('wr')
            self.walk(o())
            return
        # generic object
        self.seen[oid] = self.n
        out.append('<%s#%d' % (t.__name__, self.n))
        self.n += 1
        if t is Environment:
            self._env(o)
        else:
            skip = _EVENT_SKIP if t is Event else getattr(t, '_canon_skip', ())
            d = getattr(o, '__dict__', None)
            if d is None:
                out.append(repr(o))
            else:
                walk = self.walk
                for k in sorted(d):
                    if k in skip:
                        continue
                    out.append('.' + k)
                    walk(d[k])
        out.append('>')

    def _env(self, env):
        out = self.out
        d = env.__dict__
        for k in sorted(d):
            if k == '_events':
                out.append('._events')
                for e in sorted_events(d[k]):
                    self.walk(e)
            elif k == '_paused_events':
                out.append('._paused')
                for e in sorted(d[k], key=lambda e: repr(event_key(e))):
                    self.walk(e)
            elif k == 'step':
                continue  # E2 instance override
            elif k in ('_trace', '_event_trace', '_event_index'):
                continue  # trace bookkeeping: write-only for the simulation (checked separately, C15)
            else:
                out.append('.' + k)
                self.walk(d[k])

    def digest(self):
        return hashlib.blake2b('\x00'.join(self.out).encode(), digest_size=16).digest()


def digest(root):
    w = _Walker()
    w.walk(root)
    return w.digest()


def digest_hex(root):
    return digest(root).hex()


def dump(root):
    '''Token list of the canonical form (debugging aid: diff two of them).'''
    w = _Walker()
    w.walk(root)
    return w.out
