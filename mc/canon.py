'''Canonical form + digest of a world (DESIGN.md section 2, "Canonicalisation").

Generic object-graph walk:
  primitives as is; lists/tuples in order; dicts with primitive keys sorted by
  key, other dicts in insertion order; objects as (class, first-visit index,
  sorted __dict__); bound methods as (self, name); partial structurally;
  functions/classes by qualified name.
Dropped: Event.random_weight / message / status (never read by the library
except for ordering inside a tie group, which the explorer owns, and printing).
Normalised: order inside tie groups of Environment._events and the order of
Environment._paused_events (sorted by a key made of primitives only).
Fields named in an object's class attribute `_canon_skip` are skipped (used by
harness classes for constants and per-transition scratch space).
'''
import enum
import functools
import hashlib
import types

from simprocesd.model.simulation import Event, Environment

_PRIMS = (int, float, str, bool, type(None), bytes)
_EVENT_SKIP = frozenset(('random_weight', 'message', 'status'))


def fnum(x):
    '''Stable text of a number (ints and floats that are equal print equal).'''
    if isinstance(x, bool):
        return 'T' if x else 'F'
    if isinstance(x, enum.Enum):
        x = x.value
    if isinstance(x, int):
        return repr(float(x)) if abs(x) < 2 ** 53 else repr(x)
    if isinstance(x, float):
        return repr(x)
    return repr(x)


def action_key(action):
    '''Primitive-only description of an event action.'''
    if isinstance(action, functools.partial):
        inner = action_key(action.func)
        kw = []
        for k in sorted(action.keywords):
            kw.append((k, _argkey(action.keywords[k])))
        return (inner, tuple(_argkey(a) for a in action.args), tuple(kw))
    if isinstance(action, types.MethodType):
        owner = action.__self__
        return (type(owner).__name__, getattr(owner, '_name', getattr(owner, 'name', '')),
                action.__func__.__name__)
    k = getattr(action, 'canon_key', None)
    if k is not None:
        return ('obj', type(action).__name__, k() if callable(k) else k)
    return ('fn', getattr(action, '__qualname__', type(action).__name__))


def _argkey(a):
    if isinstance(a, _PRIMS):
        return repr(a)
    # _WorkOrder and similar: describe by target name and tag
    t = getattr(a, 'target', None)
    if t is not None:
        return ('wo', getattr(t, 'name', type(t).__name__), repr(getattr(a, 'tag', None)),
                repr(getattr(a, 'info', None)))
    n = getattr(a, 'name', None)
    if isinstance(n, str):
        return (type(a).__name__, n)
    return type(a).__name__


def event_key(ev):
    '''Key identifying an event up to interchangeability (primitives only).'''
    return (fnum(ev.time), fnum(float(ev.event_type)), ev.asset_id, action_key(ev.action),
            bool(ev.cancelled), fnum(ev.paused_at) if ev.paused_at is not None else '')


def tie_group(env):
    '''Events equal to the head in (time, event_type).'''
    evs = env._events
    if not evs:
        return []
    h = evs[0]
    out = []
    for e in evs:
        if e.time == h.time and e.event_type == h.event_type:
            out.append(e)
        else:
            break
    return out


def sorted_events(evs):
    return sorted(evs, key=lambda e: (e.time, -float(e.event_type), repr(event_key(e))))


class _Walker:
    __slots__ = ('h', 'seen', 'n', 'trace')

    def __init__(self, trace=None):
        self.h = hashlib.blake2b(digest_size=16)
        self.seen = {}
        self.n = 0
        self.trace = trace

    def emit(self, s):
        if self.trace is not None:
            self.trace.append(s if isinstance(s, str) else repr(s))
        self.h.update(s.encode() if isinstance(s, str) else s)
        self.h.update(b'\x00')

    def walk(self, o):
        emit = self.emit
        if o is None or isinstance(o, bool):
            emit(repr(o))
            return
        if isinstance(o, enum.Enum):
            emit('E' + fnum(o.value))
            return
        if isinstance(o, (int, float)):
            emit('N' + fnum(o))
            return
        if isinstance(o, (str, bytes)):
            emit('S' + repr(o))
            return
        oid = id(o)
        idx = self.seen.get(oid)
        if idx is not None:
            emit(f'@{idx}')
            return
        if isinstance(o, (list, tuple)):
            # lists can be shared/aliased but sharing of plain containers is
            # never semantically relevant in this code base; do not index them
            emit('[' if isinstance(o, list) else '(')
            for x in o:
                self.walk(x)
            emit(']')
            return
        if isinstance(o, (set, frozenset)):
            emit('{s')
            for x in sorted(o, key=repr):
                self.walk(x)
            emit('}')
            return
        if isinstance(o, dict):
            emit('{')
            keys = list(o.keys())
            if all(isinstance(k, _PRIMS) or isinstance(k, tuple) for k in keys):
                keys.sort(key=repr)
            for k in keys:
                self.walk(k)
                emit(':')
                self.walk(o[k])
            emit('}')
            return
        if isinstance(o, types.MethodType):
            emit('bm' + o.__func__.__name__)
            self.walk(o.__self__)
            return
        if isinstance(o, functools.partial):
            emit('partial')
            self.walk(o.func)
            self.walk(o.args)
            self.walk(o.keywords)
            return
        if isinstance(o, (types.FunctionType, types.BuiltinFunctionType, type)):
            emit('fn' + getattr(o, '__module__', '') + '.' + getattr(o, '__qualname__', repr(o)))
            return
        # generic object
        self.seen[oid] = self.n
        emit(f'<{type(o).__name__}#{self.n}')
        self.n += 1
        if isinstance(o, Environment):
            self._env(o)
        else:
            skip = _EVENT_SKIP if isinstance(o, Event) else getattr(type(o), '_canon_skip', ())
            d = getattr(o, '__dict__', None)
            if d is None:
                emit(repr(o))
            else:
                for k in sorted(d):
                    if k in skip:
                        continue
                    emit('.' + k)
                    self.walk(d[k])
        emit('>')

    def _env(self, env):
        emit = self.emit
        d = env.__dict__
        for k in sorted(d):
            if k == '_events':
                emit('._events')
                for e in sorted_events(d[k]):
                    self.walk(e)
            elif k == '_paused_events':
                emit('._paused')
                for e in sorted(d[k], key=lambda e: repr(event_key(e))):
                    self.walk(e)
            elif k == 'step':
                continue  # E2 instance override
            else:
                emit('.' + k)
                self.walk(d[k])


def digest(root):
    w = _Walker()
    w.walk(root)
    return w.h.digest()


def digest_hex(root):
    return digest(root).hex()


def dump(root):
    '''Token list of the canonical form (debugging aid: diff two of them).'''
    t = []
    w = _Walker(t)
    w.walk(root)
    return t
