'''Component world over a REAL Maintainer with harness Maintainable targets (C12), in
lock-step with a reference maintainer written from the property statement.

Operations:
  ('wo', t, tag)     maintainer.create_work_order(TARGETS[t], tag)   (costs 1 depth)
  ('step', key)      one real Environment.step() with tie-break choice (free: every accepted order has two events)
Targets report (needed capacity, duration, cost) per tag from a table; durations may cycle per call so that a
duration read at the wrong moment (request time instead of start) is visible.  Hooks of some targets issue
further requests from INSIDE start_work / end_work.
'''
from . import Violation, HarnessError
from . import canon, globalstate
from .comp import CompWorld, world

from simprocesd.model import System, EventType, Environment
from simprocesd.model.factory_floor import Asset, Maintainer
from simprocesd.model.factory_floor.maintainer import Maintainable

INF = float('inf')


class SysGlobals:
    '''Ownership of the two process-global variables of the library for worlds that own a System.'''

    def _enter(self):
        self._saved = (Asset._id_counter, System._instance)
        Asset._id_counter = self.id_counter
        System._instance = self.system
        if getattr(self, 'gvals', None) is None:
            self.gvals = globalstate.fresh()
        self._gsaved = globalstate.enter(self.gvals)

    def _leave(self):
        self.id_counter = Asset._id_counter
        Asset._id_counter, System._instance = self._saved
        self._saved = None
        globalstate.leave(self.gvals, self._gsaved)
        self._gsaved = None

    def __getstate__(self):
        d = dict(self.__dict__)
        d.pop('_saved', None)
        d.pop('_gsaved', None)
        return d


def _introspect(ev):
    '''(kind, target key, tag) of a maintainer event when its action says so (a functools.partial carrying the request, as
    on the pinned tree); None when it does not (a closure): the world then goes by what the event does.'''
    a = ev.action
    try:
        req = a.keywords['request']
        return (a.func.__name__, req.target.hkey, req.tag)
    except Exception:
        return None


class HTarget(Maintainable):
    def __init__(self, w, name, table, nested=None):
        self.w = w
        self.hkey = name            # the harness's own name of the target
        self.name = name            # the user-visible name (two targets may carry the same one)
        self.table = table          # tag -> [capacity, [durations...], cost]
        self.nested = nested or {}  # ('start'|'end', tag) -> (target index, tag)
        self.ncalls = {}

    def get_work_order_capacity(self, tag):
        v = self.table[tag][0]
        if isinstance(v, list):          # state-dependent need: cycles per query (asked once, at creation, by a correct library)
            i = self.ncalls.get(('cap', tag), 0)
            self.ncalls[('cap', tag)] = i + 1
            v = v[i % len(v)]
        self.w.tlog.append(('cap', self.hkey, tag, v))
        return v

    def get_work_order_duration(self, tag):
        ds = self.table[tag][1]
        i = self.ncalls.get(tag, 0)
        self.ncalls[tag] = i + 1
        v = ds[i % len(ds)]
        self.w.tlog.append(('dur', self.hkey, tag, v))
        return v

    def get_work_order_cost(self, tag):
        v = self.table[tag][2]
        self.w.tlog.append(('cost', self.hkey, tag, v))
        return v

    def start_work(self, tag):
        self.w.tlog.append(('start', self.hkey, tag))
        n = self.nested.get(('start', tag))
        if n is not None:
            self.w.request(n[0], n[1], nested=True)

    def end_work(self, tag):
        self.w.tlog.append(('end', self.hkey, tag))
        n = self.nested.get(('end', tag))
        if n is not None:
            self.w.request(n[0], n[1], nested=True)


class RefMaintainer:
    '''Reference: FIFO queue with skipping; capacity reserved when an order is selected.'''

    def __init__(self, capacity):
        self.capacity = capacity
        self.util = 0
        self.queue = []        # [target, tag, cap]
        self.active = []       # [target, tag, cap, started?, finish time]

    def outstanding(self, target, tag):
        return any(o[0] == target and o[1] == tag for o in self.queue + self.active)

    def create(self, target, tag, cap):
        if self.outstanding(target, tag):
            return False
        self.queue.append([target, tag, cap])
        self.scan()
        return True

    def startable(self, o):
        return self.util + o[2] <= self.capacity and not any(a[0] == o[0] for a in self.active)

    def scan(self):
        i = 0
        while i < len(self.queue):
            o = self.queue[i]
            if self.startable(o):
                self.queue.pop(i)
                self.active.append([o[0], o[1], o[2], False, None])
                self.util += o[2]
            else:
                i += 1

    def find(self, target, tag):
        for a in self.active:
            if a[0] == target and a[1] == tag:
                return a
        return None


@world('maint')
class MaintWorld(SysGlobals, CompWorld):
    _canon_skip = CompWorld._canon_skip + ('tlog', 'tags')

    def __init__(self, params):
        CompWorld.__init__(self, params)
        saved = (Asset._id_counter, System._instance)
        Asset._id_counter = 0
        cap = params.get('capacity')
        self.system = System()
        self.env = self.system.env
        self.m = Maintainer('mt', INF if cap is None else cap, value=100)
        if self.m.total_capacity != (INF if cap is None else cap):
            raise Violation('capacity', f'maintainer built with capacity {cap} reports total_capacity {self.m.total_capacity}')
        self.tlog = []
        self.targets = []
        for i, t in enumerate(params['targets']):
            self.targets.append(HTarget(self, f'T{i}', {(k,): list(v) for k, v in t['table'].items()},
                                        {(k.split(':')[0], (k.split(':')[1],)): tuple(v) for k, v in t.get('nested', {}).items()}))
        for i, j in params.get('same_name', []):
            self.targets[i].name = self.targets[j].name      # two different targets with one user-visible name
        self.tags = [tuple(x) for x in params['requests']]     # (target index, tag)
        self.ref = RefMaintainer(INF if cap is None else cap)
        self.costs = 0
        self.nrec = {'enter_queue': 0, 'start_work_order': 0, 'finish_work_order': 0}
        self.id_counter = Asset._id_counter
        # what System.simulate does before the loop
        s = self.system
        s.resource_manager.initialize(s._env)
        s._initialize_assets()
        s._simulation_is_initialized = True
        self.env._terminated = False
        self.id_counter = Asset._id_counter
        Asset._id_counter, System._instance = saved

    # ------------------------------------------------------------------ menu
    def menu(self):
        out = []
        if self.budget > 0:
            out += [('wo', i) for i in range(len(self.tags))]
        tg = canon.tie_group(self.env)
        self.last_tie_size = len(tg)
        seen = set()
        for e in tg:
            k = repr(canon.event_key(e))
            if k not in seen:
                seen.add(k)
                out.append(('step', k))
        return self.restrict_first(out)

    def done(self):
        return self.budget <= 0 and not self.env._events

    # ------------------------------------------------------------------ requests (also from inside hooks)
    def request(self, ti, tag, nested=False):
        # a freshly built tuple per request: equal to earlier tags of the same order, never the same object
        tag = tuple([str(tag)]) if not isinstance(tag, tuple) else tuple(list(tag))
        t = self.targets[ti]
        n0 = len(self.tlog)
        r = self.m.create_work_order(t, tag)
        caps = [x for x in self.tlog[n0:] if x[0] == 'cap' and x[1] == t.hkey and x[2] == tag]
        dup = self.ref.outstanding(t.hkey, tag)
        if r == dup:
            raise Violation('return_value', f'create_work_order({t.hkey},{tag}) returned {r} at t={self.env.now}; an identical '
                                            f'order is {"" if dup else "not "}queued or in progress')
        if r:
            if len(caps) != 1:
                raise Violation('capacity_query', f'needed capacity of ({t.hkey},{tag}) asked {len(caps)} times at creation')
            self.ref.create(t.hkey, tag, caps[0][3])
            self.tlog.append(('accepted', t.hkey, tag))
            self.facts.append('accepted' + ('_nested' if nested else ''))
        else:
            self.facts.append('rejected_duplicate')
        return r

    # ------------------------------------------------------------------ transitions
    def apply_op(self, label):
        self._enter()
        try:
            self.tlog = []
            env, ref, m = self.env, self.ref, self.m
            if label[0] == 'wo':
                self.budget -= 1
                ti, tag = self.tags[label[1]]
                self.request(ti, tag)
            elif label[0] == 'step':
                tg = canon.tie_group(env)
                ev = None
                for e in tg:
                    if repr(canon.event_key(e)) == label[1]:
                        ev = e
                        break
                if ev is None:
                    raise HarnessError(f'{label} not in tie group')
                if len(tg) > 1:
                    self.facts.append('tie_choice')
                if ev.time > env.now:
                    self.quiescent()
                env._events.remove(ev)
                ev.random_weight = -1.0
                env._events.insert(0, ev)
                intro = _introspect(ev)
                if intro is not None:
                    kind, tname, tag = intro
                Environment.step(env)
                now = env.now
                if intro is None:
                    # the event does not say which order it belongs to (e.g. a closure instead of a partial): go by what
                    # it did -- the first start / end hook it called
                    first = [x for x in self.tlog if x[0] in ('start', 'end')]
                    if not first:
                        raise Violation('hooks', 'a work-order event of the maintainer ran without starting or finishing an order')
                    kind = '_start_work_order' if first[0][0] == 'start' else '_finish_work_order'
                    tname, tag = first[0][1], first[0][2]
                a = ref.find(tname, tag)
                if a is None:
                    raise Violation('unknown_order', f'{kind} of ({tname},{tag}) which the reference does not have in progress')
                hooks = [x for x in self.tlog if x[0] in ('start', 'end')]
                if kind == '_start_work_order':
                    if a[3]:
                        raise Violation('started_twice', f'({tname},{tag})')
                    durs = [x for x in self.tlog if x[0] == 'dur' and x[1] == tname and x[2] == tag]
                    costs = [x for x in self.tlog if x[0] == 'cost' and x[1] == tname and x[2] == tag]
                    if len(durs) != 1 or len(costs) != 1:
                        raise Violation('start_queries', f'duration asked {len(durs)}x, cost asked {len(costs)}x at start of ({tname},{tag})')
                    if [x for x in hooks if x[1] == tname] != [('start', tname, tag)]:
                        raise Violation('hooks', f'start of ({tname},{tag}): hooks called {hooks}')
                    a[3] = True
                    a[4] = now + durs[0][3]
                    self.costs += costs[0][3]
                    self.facts.append('started')
                elif kind == '_finish_work_order':
                    if not a[3]:
                        raise Violation('finish_before_start', f'({tname},{tag})')
                    if a[4] != now:
                        raise Violation('duration', f'({tname},{tag}) finished at {now}, start + reported duration = {a[4]}')
                    if [x for x in hooks if x[1] == tname] != [('end', tname, tag)]:
                        raise Violation('hooks', f'end of ({tname},{tag}): hooks called {hooks}')
                    ref.util -= a[2]
                    ref.active.remove(a)
                    ref.scan()
                    self.facts.append('finished')
                else:
                    raise HarnessError(f'unexpected event {kind}')
            else:
                raise HarnessError(f'unknown op {label}')
            self.compare(label)
        finally:
            self._leave()

    def quiescent(self):
        '''The clock is about to advance: nothing startable may be left waiting.'''
        ref = self.ref
        for o in ref.queue:
            if ref.startable(o):
                raise Violation('left_waiting', f'clock advances from {self.env.now} while queued order {o} fits the '
                                                f'remaining capacity {ref.capacity - ref.util} and its target is free')
        for a in ref.active:
            if not a[3]:
                raise Violation('left_waiting', f'clock advances from {self.env.now} while selected order {a} has not started')
        if ref.queue:
            self.facts.append('queued_while_clock_advances')

    def compare(self, label):
        env, ref, m = self.env, self.ref, self.m
        if m.available_capacity != ref.capacity - ref.util:
            raise Violation('capacity', f'available_capacity {m.available_capacity} vs reference {ref.capacity - ref.util}')
        started = [a for a in ref.active if a[3]]
        if sum(a[2] for a in started) > ref.capacity:
            raise Violation('capacity', f'orders in progress {started} exceed capacity {ref.capacity}')
        if m.available_capacity < 0:
            raise Violation('capacity', f'available capacity {m.available_capacity} < 0')
        tn = [a[0] for a in ref.active]
        if len(set(tn)) != len(tn):
            raise Violation('one_per_target', f'two orders in progress on one target: {ref.active}')
        want = []
        for a in ref.active:
            if a[3]:
                want.append((canon.fnum(a[4]), '_finish_work_order', a[0], a[1]))
            else:
                want.append((canon.fnum(env.now), '_start_work_order', a[0], a[1]))
        real = []
        opaque = False
        for e in env._events:
            intro = _introspect(e)
            if intro is None:
                opaque = True
                real.append((canon.fnum(e.time),))
            else:
                real.append((canon.fnum(e.time),) + intro)
        if opaque:
            real = [x[:1] for x in real]
            want = [x[:1] for x in want]
        if sorted(real) != sorted(want):
            raise Violation('pending_orders', f'after {label}: scheduled starts/finishes {sorted(real)} vs reference {sorted(want)}')
        q = [(r.target.hkey, r.tag) for r in m._request_queue]
        if q != [(o[0], o[1]) for o in ref.queue]:
            raise Violation('queue_order', f'after {label}: waiting orders {q} vs reference (request order) {[(o[0], o[1]) for o in ref.queue]}')
        if m.value != 100 - self.costs:
            raise Violation('cost', f'maintainer value {m.value}, initial 100 - costs of started orders {self.costs}')
        # records: one per occurrence, stamped now
        now = env.now
        for lab, key in (('enter_queue', 'accepted'), ('start_work_order', 'start'), ('finish_work_order', 'end')):
            recs = env.simulation_data.get(lab, {}).get('mt', [])
            new = [tuple(r) for r in recs[self.nrec[lab]:]]
            vis = {t.hkey: t.name for t in self.targets}          # records carry the user-visible name of the target
            exp = [(now, vis[x[1]], x[2], None) for x in self.tlog if x[0] == key]
            if new != exp:
                raise Violation('records', f'{lab}: recorded {new}, happened {exp}')
        # the data tables are a pure log: drop what was checked so that states reached by different histories merge
        env.simulation_data.clear()
        self.nrec = {k: 0 for k in self.nrec}
        if len(ref.active) >= 2:
            self.facts.append('overlapping_orders')
