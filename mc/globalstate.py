'''Ownership of process-global state of the library (DESIGN.md section 3).

deepcopy/pickle forks of a world do not carry class-level or module-level variables.
On the pinned tree the library has exactly two (Asset._id_counter, System._instance,
both handled by the worlds themselves); but a change that hoists per-object state to
class or module scope (a shared list, a cached flag, a per-class counter) would make
forks interfere with each other.  Every such site -- non-callable, non-dunder
attributes holding a primitive or a list/dict/set, of simprocesd's modules, of its
classes AND of every subclass of them (harness subclasses included, because
`type(self).x += 1` creates the attribute on the subclass) -- is discovered dynamically,
swapped in when a world is entered and swapped out (or deleted) when it is left, and is
part of the world's digest.
'''
import copy
import enum
import importlib
import pkgutil
import sys
import types

import simprocesd

_PRIM = (int, float, bool, str, type(None))
_CONT = (list, dict, set)
_SKIP = {'simprocesd.model.factory_floor.asset:Asset:_id_counter',
         'simprocesd.model.system:System:_instance'}


def _modules():
    mods = []
    for m in pkgutil.walk_packages(simprocesd.__path__, 'simprocesd.'):
        if '.tests' in m.name:
            continue
        try:
            mods.append(importlib.import_module(m.name))
        except Exception:
            continue
    return mods


_MODS = _modules()
_ROOTS = []
for _m in _MODS:
    for _n, _v in list(vars(_m).items()):
        if isinstance(_v, type) and _v.__module__ == _m.__name__ and not issubclass(_v, enum.Enum):
            _ROOTS.append(_v)


_CLS_CACHE = [None, -1]


def _classes():
    # the class population only grows when modules are imported; cache by the number of Asset subclasses
    n = len(type.__subclasses__(_ROOTS[0])) if _ROOTS else 0
    if _CLS_CACHE[0] is not None and _CLS_CACHE[1] == n:
        return _CLS_CACHE[0]
    seen = _classes_uncached()
    _CLS_CACHE[0], _CLS_CACHE[1] = seen, n
    return seen


def _classes_uncached():
    seen = {}
    stack = list(_ROOTS)
    while stack:
        c = stack.pop()
        k = f'{c.__module__}:{c.__qualname__}'
        if k in seen:
            continue
        seen[k] = c
        stack.extend(type.__subclasses__(c))
    return seen


def _default_funcs():
    '''Library functions whose default arguments hold a mutable container (shared by every call in the process).'''
    out = {}
    def visit(owner_key, d):
        for an, av in list(d.items()):
            f = av.__func__ if isinstance(av, (staticmethod, classmethod)) else av
            if isinstance(f, types.FunctionType) and f.__defaults__ and \
                    any(isinstance(x, _CONT) for x in f.__defaults__):
                out[f'{owner_key}.{an}:__defaults__'] = f
    for m in _MODS:
        visit(f'{m.__name__}:', {k: v for k, v in vars(m).items() if getattr(v, '__module__', None) == m.__name__})
    for c in _ROOTS:
        visit(f'{c.__module__}:{c.__qualname__}', vars(c))
    return out


_DEFAULT_FUNCS = _default_funcs()


def _eligible(name, val):
    if name.startswith('__') or name == '_canon_skip':
        return False
    if callable(val) or isinstance(val, (property, staticmethod, classmethod, types.ModuleType)):
        return False
    return isinstance(val, _PRIM + _CONT)


def _scan():
    '''Current values of every owned site: key -> (owner, attribute, value).'''
    out = {}
    for ck, c in _classes().items():
        for an, av in list(vars(c).items()):
            if _eligible(an, av):
                k = f'{ck}:{an}'
                if k not in _SKIP:
                    out[k] = (c, an, av)
    for m in _MODS:
        for an, av in list(vars(m).items()):
            if an.startswith('__') or an.isupper():
                continue
            if isinstance(av, _CONT) or (isinstance(av, (int, float)) and not isinstance(av, bool)):
                out[f'{m.__name__}::{an}'] = (m, an, av)
    for k, f in _DEFAULT_FUNCS.items():
        out[k] = (f, '__defaults__', f.__defaults__)
    return out


PRISTINE = {k: copy.deepcopy(v[2]) for k, v in _scan().items()}
SITES = sorted(PRISTINE)          # sites that exist at import time (none on the pinned tree)


def fresh():
    return {k: copy.deepcopy(v) for k, v in PRISTINE.items()}


def _owner(key):
    if key in _DEFAULT_FUNCS:
        return _DEFAULT_FUNCS[key], '__defaults__'
    mod, qual, attr = key.split(':')
    if qual == '':
        return sys.modules[mod], attr
    return _classes()[f'{mod}:{qual}'], attr


def _install(values):
    cur = _scan()
    for k, (owner, attr, _) in cur.items():
        if k not in values:
            delattr(owner, attr)
    for k, v in values.items():
        owner, attr = _owner(k)
        setattr(owner, attr, v)
    return {k: v[2] for k, v in cur.items()}


def _fingerprint():
    '''Cheap change detector: number of attributes of every class and module in scope.'''
    return tuple(len(vars(c)) for c in _classes().values()) + tuple(len(vars(m)) for m in _MODS)


_FP0 = None


def enter(gvals):
    '''Install a world's values; returns what has to be put back (None on the fast path: nothing owned anywhere).'''
    global _FP0
    if _FP0 is None:
        _FP0 = _fingerprint()
    if not gvals and not PRISTINE:
        fp = _fingerprint()
        if fp == _FP0:
            return None
        if not _scan():
            _FP0 = fp                    # harmless growth (e.g. pickle's __slotnames__ cache): re-arm the fast path
            return None
    return _install(gvals)


def leave(gvals, saved):
    global _FP0
    if saved is None:
        fp = _fingerprint()
        if fp == _FP0:
            return                       # nothing appeared while the world was entered
        if not _scan():
            _FP0 = fp
            return
        saved = {}
    now = _install(saved)
    gvals.clear()
    gvals.update(now)
