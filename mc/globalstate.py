'''Ownership of process-global state of the library (DESIGN.md section 3).

deepcopy/pickle forks of a world do not carry class-level or module-level variables.
On the pinned tree the library has exactly two (Asset._id_counter, System._instance,
both handled by the worlds); but a change that hoists per-object state to class or
module scope (a shared list, a cached flag, a counter) would make forks interfere with
each other.  Every such site -- non-callable, non-dunder attributes of simprocesd's
modules and classes holding a primitive or a list/dict/set -- is therefore swapped in
when a world is entered and swapped out when it is left, and is part of its digest.
'''
import copy
import enum
import importlib
import pkgutil
import types

import simprocesd

_PRIM = (int, float, bool, str, type(None))
_CONT = (list, dict, set)
_SKIP = {('simprocesd.model.factory_floor.asset', 'Asset', '_id_counter'),
         ('simprocesd.model.system', 'System', '_instance')}


def _sites():
    out = []
    mods = []
    for m in pkgutil.walk_packages(simprocesd.__path__, 'simprocesd.'):
        if '.tests' in m.name:
            continue
        try:
            mods.append(importlib.import_module(m.name))
        except Exception:
            continue
    seen = set()
    for mod in mods:
        for name, val in list(vars(mod).items()):
            if name.startswith('__'):
                continue
            if isinstance(val, type) and val.__module__ == mod.__name__ and not issubclass(val, enum.Enum):
                for an, av in list(vars(val).items()):
                    if an.startswith('__') or callable(av) or isinstance(av, (property, staticmethod, classmethod)):
                        continue
                    if isinstance(av, _PRIM + _CONT):
                        k = (mod.__name__, val.__name__, an)
                        if k not in seen and k not in _SKIP:
                            seen.add(k)
                            out.append((k, val, an))
            elif isinstance(val, _CONT) or (isinstance(val, (int, float)) and not isinstance(val, bool)
                                            and not name.isupper()):
                if getattr(mod, '__name__', '').startswith('simprocesd') and not isinstance(val, types.ModuleType):
                    k = (mod.__name__, '', name)
                    if k not in seen:
                        seen.add(k)
                        out.append((k, mod, name))
    return out


SITES = _sites()
PRISTINE = {k: copy.deepcopy(getattr(owner, attr)) for k, owner, attr in SITES}


def fresh():
    return {repr(k): copy.deepcopy(v) for k, v in PRISTINE.items()}


def enter(gvals):
    '''Install a world's values; returns what has to be put back.'''
    saved = []
    for k, owner, attr in SITES:
        saved.append(getattr(owner, attr))
        setattr(owner, attr, gvals[repr(k)])
    return saved


def leave(gvals, saved):
    for (k, owner, attr), old in zip(SITES, saved):
        gvals[repr(k)] = getattr(owner, attr)
        setattr(owner, attr, old)
