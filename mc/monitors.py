'''Invariant monitors for line worlds (DESIGN.md section 5).  Monitors live inside
the world: their state is pickled and digested with it.'''
from collections import Counter

import numpy as np

from . import Violation, HarnessError
from .line import Monitor, leaves, leaf_parts, true_value, INF
from .explorer import snapshot, restore
from .linejobs import monitor

from simprocesd.model.factory_floor import (Batch, PartHandler, PartFlowController, DecisionGate,
                                            PartBatcher, PartProcessor, Source, Buffer, Sink)
from simprocesd.model.factory_floor.group import GroupPath, GroupInput, GroupOutput


def held_items(dev):
    '''Part objects (possibly batches) physically inside a device.'''
    out = []
    if isinstance(dev, PartHandler):
        if dev._part is not None:
            out.append(dev._part)
        if dev._output is not None:
            out.append(dev._output)
    if isinstance(dev, Buffer):
        out.extend(dev.stored_parts)
    if isinstance(dev, PartBatcher) and dev._in_progress_batch is not None:
        out.append(dev._in_progress_batch)
    return out


@monitor('census')
class Census(Monitor):
    '''C02: every generated part is in exactly one place; single slots; budget.'''
    prop = 'C02'

    def __init__(self):
        self.budget = {}

    def attach(self, w):
        for d in w.spec['devices']:
            if d['kind'] == 'source':
                b = d.get('budget')
                self.budget[d['name']] = INF if b is None else b

    def created(self, w, d, t0):
        if d['kind'] == 'source':
            b = d.get('budget')
            self.budget[d['name']] = INF if b is None else b

    def start(self, w):
        self.check(w)

    def after(self, w, label, ev):
        for t in w.hub.tlog:
            if t[0] == 'adjust':
                src = w.dev[t[1]]
                # documented: the remaining count is never decreased below 0
                supplied = self.supplied(src)
                self.budget[t[1]] = max(self.budget[t[1]] + t[2], supplied)
        self.check(w)

    @staticmethod
    def supplied(src):
        return len(src._part_generator.items) - (1 if src._output is not None else 0)

    def check(self, w):
        generated = Counter()
        for s in w.sources():
            generated.update(s._part_generator.generated)
        inside = Counter()
        where = {}
        for dev in w.flow_devices():
            if isinstance(dev, Sink):
                if dev._part is not None and dev._output is not None:
                    raise Violation('single_slot', f'sink {dev.name} holds two parts')
                continue
            items = held_items(dev)
            for it in items:
                for lid in leaves(it):
                    inside[lid] += 1
                    where.setdefault(lid, []).append(dev.name)
            if type(dev) in _SINGLE_SLOT and dev._part is not None and dev._output is not None:
                raise Violation('single_slot', f'{dev.name} holds a part in both slots')
            if isinstance(dev, Source) and dev._part is not None:
                raise Violation('single_slot', f'source {dev.name} has an input part')
        delivered = Counter()
        for sink, ids in w.hub.delivered.items():
            delivered.update(ids)
            for lid in ids:
                where.setdefault(lid, []).append('sink:' + sink)
        lost = Counter()
        lost_ids_cb = Counter()
        for dev, pid, lv in w.hub.lost:
            lost.update(lv)
            lost_ids_cb[(dev, pid)] += 1
            for lid in lv:
                where.setdefault(lid, []).append('lost:' + dev)
        # failure log must report the same losses, once each
        lost_ids_log = Counter()
        for name, recs in w.env.simulation_data.get('device_failure', {}).items():
            for r in recs:
                if r[1] is not None:
                    lost_ids_log[(name, r[1])] += 1
        if lost_ids_log != lost_ids_cb:
            raise Violation('lost_report', f'failure log {dict(lost_ids_log)} vs shutdown callbacks '
                                           f'{dict(lost_ids_cb)}')
        total = inside + delivered + lost
        if total != generated or any(c != 1 for c in total.values()):
            bad = {}
            for lid in set(total) | set(generated):
                if total.get(lid, 0) != 1 or generated.get(lid, 0) != 1:
                    bad[lid] = where.get(lid, [])
            raise Violation('conservation', f'parts not in exactly one place: {bad} '
                                            f'(generated={sum(generated.values())} inside={sum(inside.values())} '
                                            f'delivered={sum(delivered.values())} lost={sum(lost.values())})')
        for k in w.dev.values():
            if isinstance(k, Sink) and k.received_parts_count != len(w.hub.delivered.get(k.name, [])):
                raise Violation('sink_count', f'{k.name} says it received {k.received_parts_count} parts, '
                                              f'{len(w.hub.delivered.get(k.name, []))} were handed to it')
        for s in w.sources():
            sup = self.supplied(s)
            if sup != s.produced_parts:
                raise Violation('budget', f'{s.name}: produced_parts={s.produced_parts} but {sup} parts left it')
            if sup > self.budget[s.name]:
                raise Violation('budget', f'{s.name} supplied {sup} parts with a budget of {self.budget[s.name]}')
        if delivered:
            w.facts.append('delivered')


_SINGLE_SLOT = ()


def _init_types():
    global _SINGLE_SLOT
    from .line import HProcessor
    _SINGLE_SLOT = (PartHandler, PartProcessor, HProcessor, Source)


_init_types()


# ============================================================================ helpers

def dev_by_id(w, aid):
    for a in w.system._assets:
        if a.id == aid:
            return a
    return None


def gave_entries(w, accepted=None):
    for t in w.hub.tlog:
        if t[0] == 'gave' and (accepted is None or t[6] == accepted):
            yield t


def top_giver(w, rec):
    '''Name of the device that initiated the (possibly nested) hand-over `rec` belongs to.'''
    a = dev_by_id(w, w.hub.actor)
    return a.name if a is not None else None


def ev_action_name(ev):
    a = ev.action
    f = getattr(a, 'func', a)
    return getattr(f, '__name__', type(f).__name__)


def ev_owner(ev):
    a = ev.action
    f = getattr(a, 'func', a)
    return getattr(f, '__self__', None)


# ============================================================================ C03

def ready_part(dev):
    '''The part a device holds ready to leave right now, or None.'''
    if not dev.is_operational():
        return None
    if isinstance(dev, Sink):
        return None
    if isinstance(dev, Source):
        if dev._output is not None and dev.remaining_parts >= 1:
            return dev._output
        return None
    if isinstance(dev, Buffer):
        if not dev._buffer:
            return None
        t_in, part = dev._buffer[0]
        now = dev.env.now
        # the buffer's documented tolerance: one unit of rounding of the clock
        if (t_in + dev.minimum_delay) - now > np.spacing(float(now)):
            return None
        return part
    if isinstance(dev, PartHandler):
        return dev._output
    return None


@monitor('wakeup')
class WakeUp(Monitor):
    '''C03: whenever the clock is about to advance (and at the end of the run) no
    device holds a ready part that a downstream neighbour would accept.  Readiness
    is computed here, acceptance by the REAL give_part on a forked copy.'''
    prop = 'C03'

    def quiescent(self, w):
        cands = [d.name for d in w.dev.values()
                 if isinstance(d, PartHandler) and d._downstream and ready_part(d) is not None]
        if not cands:
            return
        w.facts.append('wakeup_probe')
        snap = w.fork()
        from simprocesd.model import System
        for name in cands:
            w2 = restore(snap)
            w2.hub.probing = True
            System._instance = w2.system
            from . import globalstate
            gs = globalstate.enter(w2.gvals)
            try:
                d2 = w2.dev[name]
                part = ready_part(d2)
                for dwn in d2.get_sorted_downstream_list():
                    if dwn.give_part(part):
                        raise Violation('lost_wakeup',
                                        f'at t={w.env.now} {name} holds ready part {part.id} and {dwn.name} '
                                        f'accepts it when offered, but no hand-over attempt is pending')
            finally:
                globalstate.leave(w2.gvals, gs)
                System._instance = w.system
        w.facts.append('blocked_part_genuinely_blocked')


# ============================================================================ C05

@monitor('buffer')
class BufferMon(Monitor):
    '''C05: capacity, level, FIFO, minimum delay.'''
    prop = 'C05'
    _canon_skip = ('pre',)

    def __init__(self):
        self.arrived = {}    # buffer -> {part id: arrival time} for stored parts
        self.pre = {}

    def buffers(self, w):
        return [d for d in w.dev.values() if isinstance(d, Buffer)]

    def before(self, w, label, ev):
        self.pre = {b.name: [p.id for p in b.stored_parts] for b in self.buffers(w)}

    def start(self, w):
        self.pre = {b.name: [] for b in self.buffers(w)}
        self._static(w)

    def _static(self, w):
        for b in self.buffers(w):
            n = sum(len(p.parts) if isinstance(p, Batch) else 1 for p in b.stored_parts)
            if b.level() != n:
                raise Violation('level', f'{b.name}: level()={b.level()} but {n} parts stored')
            if b.level() > b.capacity:
                raise Violation('capacity', f'{b.name}: level {b.level()} exceeds capacity {b.capacity}')
            if b._part is not None or b._output is not None:
                raise Violation('level', f'{b.name}: part outside the store between events')

    def after(self, w, label, ev):
        now = w.env.now
        actor = dev_by_id(w, w.hub.actor)
        for b in self.buffers(w):
            arr = self.arrived.setdefault(b.name, {})
            old = self.pre.get(b.name, [])
            arrivals = [t[2] for t in w.hub.tlog if t[0] == 'received' and t[1] == b.name]
            departed = []
            if actor is b:
                departed = [t[4] for t in gave_entries(w, True) if t[2] == -1]
            cur = [p.id for p in b.stored_parts]
            seq = old + arrivals
            k = len(seq) - len(cur)
            if k < 0 or seq[k:] != cur:
                raise Violation('fifo', f'{b.name}: stored {old} + arrivals {arrivals} became {cur}: '
                                        f'not a removal from the head')
            if seq[:k] != departed:
                raise Violation('fifo', f'{b.name}: parts {seq[:k]} left the store but hand-overs made by the '
                                        f'buffer were {departed}')
            for pid in departed:
                # (a part may leave and come back within one event -- a loop through zero-time devices: the stay that
                # ends is the one that began earlier)
                t_in = arr.pop(pid) if pid in arr else now
                if now < t_in + b.minimum_delay - np.spacing(float(now)):
                    raise Violation('min_delay', f'{b.name}: part {pid} arrived {t_in} left {now}, '
                                                 f'minimum delay {b.minimum_delay}')
                w.facts.append('buffer_departure')
            for pid in arrivals:
                if pid in cur:
                    arr[pid] = now
            if len(cur) >= 2:
                w.facts.append('buffer_holds_2+')
        self._static(w)
        if any(t[0] == 'gave' and not t[6] for t in w.hub.tlog):
            w.facts.append('refusal')


# ============================================================================ C15

DATA_LABELS = ('received_part', 'produced_part', 'supplied_new_part', 'device_failure', 'enter_queue',
               'start_work_order', 'finish_work_order', 'level', 'resource_update', 'schedule_update')


@monitor('data')
class DataMon(Monitor):
    '''C15: recorded simulation data mirrors what happened (checked after every event).'''
    prop = 'C15'
    _canon_skip = ('pre', 'pre_sup')

    def __init__(self):
        self.pre = {}
        self.pre_sup = {}
        self.cleared = False     # the user discarded the recorded data (operation 'cleardata'): counters are compared
        self.base = {}           # ... with the records added since then

    def _lens(self, w):
        out = {}
        for lab, d in w.env.simulation_data.items():
            for name, recs in d.items():
                out[(lab, name)] = len(recs)
        return out

    def start(self, w):
        self.pre = self._lens(w)
        self._static(w)

    def before(self, w, label, ev):
        self.pre = self._lens(w)
        self.pre_sup = {s.name: Census.supplied(s) for s in w.sources()}

    @staticmethod
    def _mt_of(w, ev):
        '''The maintainer whose event is executing (work-order hooks are called from its start/finish events).'''
        from simprocesd.model.factory_floor import Maintainer as _M
        o = ev_owner(ev)
        return o.name if isinstance(o, _M) else w.maintainer.name

    def _new(self, w, lab, name):
        recs = w.env.simulation_data.get(lab, {}).get(name, [])
        return recs[self.pre.get((lab, name), 0):]

    def _static(self, w):
        sd = w.env.simulation_data
        for b in w.dev.values():
            if isinstance(b, Buffer):
                recs = sd.get('level', {}).get(b.name, [])
                if self.cleared and not recs:
                    continue
                last = recs[-1][1] if recs else 0
                if last != b.level():
                    raise Violation('level_record', f'{b.name}: last recorded level {last}, actual {b.level()}')
        rm = w.env.resource_manager
        for r, (use, cap) in rm._resources.items():
            recs = sd.get('resource_update', {}).get(r, [])
            if self.cleared and not recs:
                continue
            if not recs:
                raise Violation('resource_record', f'no resource_update record for {r}')
            if (recs[-1][1], recs[-1][2]) != (use, cap):
                raise Violation('resource_record', f'{r}: last record {recs[-1][1:]} vs pool {(use, cap)}')
        for s in w.sources():
            n = len(sd.get('supplied_new_part', {}).get(s.name, [])) + self.base.get(('sup', s.name), 0)
            if s.produced_parts != n:
                raise Violation('counter', f'{s.name}.produced_parts={s.produced_parts} but {n} supplied records')
        for k in w.dev.values():
            if isinstance(k, Sink):
                n = len(sd.get('received_part', {}).get(k.name, [])) + self.base.get(('recv', k.name), 0)
                items = w.hub.delivered_items.get(k.name, [])
                lv = w.hub.delivered.get(k.name, [])
                if n != len(items):
                    raise Violation('counter', f'{k.name}: {n} received records, {len(items)} deliveries')
                if k.received_parts_count != len(lv):
                    raise Violation('counter', f'{k.name}.received_parts_count={k.received_parts_count} but '
                                               f'{len(lv)} parts were delivered')

    def after(self, w, label, ev):
        now = w.env.now
        tl = w.hub.tlog
        exp = {}

        def add(lab, name, rec):
            exp.setdefault((lab, name), []).append(rec)

        if any(t[0] == 'cleardata' for t in tl):
            if w.env.simulation_data:
                raise Violation('records', 'simulation_data.clear() left data behind')
            self.cleared = True
            self.pre = {}
            for s_ in w.sources():
                self.base[('sup', s_.name)] = s_.produced_parts
            for k_ in w.dev.values():
                if isinstance(k_, Sink):
                    self.base[('recv', k_.name)] = len(w.hub.delivered_items.get(k_.name, []))
        for t in tl:
            if t[0] == 'received':
                add('received_part', t[1], (now, t[2], t[4], t[5]))
            elif t[0] == 'finished':
                add('produced_part', t[1], (now, t[2], t[4], t[5]))
            elif t[0] == 'wo_request' and t[3]:
                add('enter_queue', t[4], (now, t[1], t[2], None))
            elif t[0] == 'start_work':
                add('start_work_order', self._mt_of(w, ev), (now, t[1], t[2], None))
            elif t[0] == 'end_work':
                add('finish_work_order', self._mt_of(w, ev), (now, t[1], t[2], None))
        # supplied parts: accepted top-level hand-overs made by a source
        actor = dev_by_id(w, w.hub.actor)
        if isinstance(actor, Source):
            for t in gave_entries(w, True):
                if t[2] == -1:
                    add('supplied_new_part', actor.name, (now, t[4]))
        for s in w.sources():
            d = Census.supplied(s) - self.pre_sup.get(s.name, 0)
            got = len(exp.get(('supplied_new_part', s.name), []))
            if d != got:
                raise HarnessError(f'supply ground truth disagrees: {d} vs {got}')
        # failures: one record per executed failure event
        if label[0] == 'ev' and ev_action_name(ev) == '_fail' and not ev.cancelled:
            o = ev_owner(ev)
            lostp = [t[3] for t in tl if t[0] == 'shutdown' and t[1] == o.name and t[2]]
            add('device_failure', o.name, (now, lostp[0] if lostp else None))
        for lab in ('received_part', 'produced_part', 'supplied_new_part', 'device_failure', 'enter_queue',
                    'start_work_order', 'finish_work_order'):
            names = set(n for (l, n) in exp if l == lab) | set(w.env.simulation_data.get(lab, {}).keys())
            for name in names:
                new = [tuple(r) for r in self._new(w, lab, name)]
                want = exp.get((lab, name), [])
                if lab == 'device_failure' and want and not [t for t in tl if t[0] == 'shutdown']:
                    want = [(now, new[0][1])] if new else want   # lost id not observable without callback
                if new != want:
                    raise Violation('records', f'{lab}[{name}] at t={now}: recorded {new}, happened {want}')
                if new:
                    w.facts.append('rec:' + lab)
        for lab in ('level', 'resource_update'):
            for name in w.env.simulation_data.get(lab, {}):
                for r in self._new(w, lab, name):
                    if r[0] != now:
                        raise Violation('records', f'{lab}[{name}] record stamped {r[0]} at t={now}')
        self._static(w)


# ============================================================================ C16

@monitor('value')
class ValueMon(Monitor):
    '''C16: value accounting identities after every event.'''
    prop = 'C16'
    _canon_skip = ('pre',)

    def __init__(self):
        self.supplied = {}    # source -> summed value at supply
        self.received = {}    # sink -> summed value at receipt
        self.costs = {}       # maintainer name -> costs of the orders it started
        self.owner = {}       # (target, tag) -> maintainer that accepted the order
        self.booked = {}      # asset -> value booked directly on it by operations
        self.pre = {}

    def _assets(self, w):
        out = list(w.system._assets)
        seen = set(id(a) for a in out)
        for d in w.flow_devices():
            for it in held_items(d):
                for p in [it] + (leaf_parts(it) if isinstance(it, Batch) else []):
                    if id(p) not in seen:
                        seen.add(id(p))
                        out.append(p)
            if isinstance(d, Sink):
                for it in d.collected_parts:
                    for p in [it] + (leaf_parts(it) if isinstance(it, Batch) else []):
                        if id(p) not in seen:
                            seen.add(id(p))
                            out.append(p)
        return out

    def before(self, w, label, ev):
        self.pre = {a.id: len(a._value_history) for a in self._assets(w)}

    def start(self, w):
        self.check(w, True)

    def after(self, w, label, ev):
        actor = dev_by_id(w, w.hub.actor)
        for t in gave_entries(w, True):
            if t[2] == -1 and isinstance(actor, Source):
                self.supplied[actor.name] = self.supplied.get(actor.name, 0) + t[8]
            if isinstance(w.dev.get(t[3]), Sink):
                self.received[t[3]] = self.received.get(t[3], 0) + t[8]
        last_cost = {}
        for t in w.hub.tlog:
            if t[0] == 'wo_cost':
                last_cost[(t[1], t[2])] = t[3]           # what the target reported for this order
            elif t[0] == 'wo_request' and t[3]:
                self.owner[(t[1], t[2])] = t[4]
            elif t[0] == 'start_work':
                c_ = last_cost.get((t[1], t[2]))
                if c_ is None:
                    raise Violation('maintainer_value', f'order ({t[1]},{t[2]}) started without its cost being asked')
                mt_ = self.owner.get((t[1], t[2]))
                self.costs[mt_] = self.costs.get(mt_, 0) + c_
            elif t[0] == 'addvalue':
                self.booked[t[1]] = self.booked.get(t[1], 0) + t[2]
        self.check(w, False)

    @staticmethod
    def _configured(w, nm):
        for d in list(w.spec['devices']) + list(w.spec.get('late', [])):
            if d['name'] == nm:
                return d.get('value', 0) if d['kind'] not in ('source', 'sink', 'scheduler') else 0
        return 0

    def check(self, w, first):
        now = w.env.now
        net = 0
        names = {id(o): n for n, o in w.dev.items()}
        for a in self._assets(w):
            if isinstance(a, Batch):
                want = true_value(a)
                if a.value != want:
                    raise Violation('batch_value', f'batch {a.id}: value {a.value} vs sum of parts {want}')
                continue
            h = a._value_history
            run = a._initial_value
            nm = names.get(id(a))
            if nm is not None:
                # the starting value is the one the model was CONFIGURED with, whatever the asset made of it
                run = self._configured(w, nm)
                if a._initial_value != run and not h:
                    raise Violation('value', f'{a.name}: configured starting value {run}, asset starts at {a._initial_value}')
            tprev = 0
            for i, e in enumerate(h):
                if len(e) != 4:
                    raise Violation('history', f'{a.name}: malformed entry {e}')
                lab, t, dv, tot = e
                if dv == 0:
                    raise Violation('history', f'{a.name}: zero change recorded {e}')
                run += dv
                if tot != run:
                    raise Violation('history', f'{a.name}: running total {tot} in {e}, expected {run}')
                if t < tprev or t > now:
                    raise Violation('history', f'{a.name}: entry time {t} out of order (now={now})')
                tprev = t
                if not first and i >= self.pre.get(a.id, 0) and t != now:
                    raise Violation('history', f'{a.name}: new entry {e} not stamped with now={now}')
            if a.value != run:
                raise Violation('value', f'{a.name}: value {a.value} != initial {a._initial_value} + history = {run}')
        for s in w.sources():
            sup = self.supplied.get(s.name, 0)
            if s.value != -sup or s.cost_of_produced_parts != sup:
                raise Violation('source_value', f'{s.name}: value {s.value}, cost_of_produced_parts '
                                                f'{s.cost_of_produced_parts}, value of supplied parts {sup}')
        for k in w.dev.values():
            if isinstance(k, Sink):
                rec = self.received.get(k.name, 0)
                if k.value != rec + self.booked.get(k.name, 0) or k.value_of_received_parts != rec:
                    raise Violation('sink_value', f'{k.name}: value {k.value}, value_of_received_parts '
                                                  f'{k.value_of_received_parts}, value at receipt {rec}')
                if rec:
                    w.facts.append('sink_value_nonzero')
        from simprocesd.model.factory_floor import Maintainer
        for nm, m in w.dev.items():
            # (several maintainers when one is created late: each is charged for the orders IT accepted)
            if isinstance(m, Maintainer):
                c_ = self.costs.get(nm, 0)
                if m.value != m._initial_value - c_:
                    raise Violation('maintainer_value', f'{nm}: value {m.value} vs initial {m._initial_value} - costs {c_}')
                if c_:
                    w.facts.append('wo_cost_charged')
        if None in self.costs:
            raise Violation('maintainer_value', 'an order started that no maintainer of the model had accepted')
        from simprocesd.model.factory_floor import Asset
        # every non-transitory asset the MODEL has created (whatever the system remembers of it) plus those registered by hand
        mine = {id(a): a for a in w.system._assets if isinstance(a, Asset)}
        for o in w.dev.values():
            if isinstance(o, Asset) and not getattr(o, '_is_transitory', False):
                mine.setdefault(id(o), o)
        tot = sum(a.value for a in mine.values())
        if w.system.get_net_value_of_assets() != tot:
            raise Violation('net_value', f'system says {w.system.get_net_value_of_assets()}, the assets created by the model '
                                         f'are worth {tot}')
        # ... of THIS system, whichever system happens to be the active one
        from simprocesd.model import System as _Sys
        act = _Sys._instance
        other = _Sys.__new__(_Sys)
        other._assets = []
        _Sys._instance = other
        try:
            got = w.system.get_net_value_of_assets()
        finally:
            _Sys._instance = act
        if got != tot:
            raise Violation('net_value', f'net value of the system is {got} while another system is active, {tot} otherwise')


# ============================================================================ C06

def _is_cycle_dev(d):
    return isinstance(d, PartHandler) and not isinstance(d, (Source, Sink, Buffer, PartBatcher))


def _is_slot_dev(d):
    '''Single-slot devices that rank by idle time when several of them can take a part: handlers, processors and sinks.'''
    return _is_cycle_dev(d) or isinstance(d, Sink)


@monitor('cycle')
class CycleMon(Monitor):
    '''C06: every accepted part is released from processing after exactly the cycle
    time in effect at acceptance, measured in operational time of the device.'''
    prop = 'C06'

    def __init__(self):
        self.pending = {}   # device -> one-shot offsets requested by operations, not yet consumed by a cycle
        self.acc = {}       # device -> [part id, needed, operational time so far]
        self.count = {}     # device -> parts accepted so far
        self.cur = {}       # device -> cycle time currently configured (spec + 'cycle' ops)
        self.src_base = {}  # source -> time its current cycle started
        self.src_items = {}
        self.sink_last = {}

    def attach(self, w):
        self.specs = {d['name']: d for d in w.spec['devices']}
        for d in w.spec['devices']:
            if d['kind'] in ('handler', 'processor', 'sink'):
                self.cur[d['name']] = d.get('cycle', 0)
            if d.get('pre_offset'):
                self.pending[d['name']] = d['pre_offset']
            if d['kind'] == 'source':
                self.src_base[d['name']] = 0
                self.src_items[d['name']] = 0
    _canon_skip = ('specs',)

    def created(self, w, d, t0):
        self.specs[d['name']] = d
        if d['kind'] in ('handler', 'processor'):
            self.cur[d['name']] = d.get('cycle', 0)
        if d['kind'] == 'source':
            self.src_base[d['name']] = t0            # a source created at t0 starts its first cycle at t0
            self.src_items[d['name']] = 0

    def before(self, w, label, ev):
        dt = ev.time - w.env.now
        if dt < 0:
            raise Violation('clock', f'event at {ev.time} executed at now={w.env.now}')
        for name, a in self.acc.items():
            if w.dev[name].is_operational():
                a[2] += dt
                if a[2] > a[1]:
                    raise Violation('late', f'{name}: part {a[0]} has been processed for {a[2]} operational '
                                            f'time units, cycle time in effect {a[1]}')

    def after(self, w, label, ev):
        now = w.env.now
        xop = w.executed_op(ev)
        if xop is not None and xop[0] == 'cycle':
            self.cur[xop[1]] = xop[2]
        if xop is not None and xop[0] == 'offset':
            # requested while the device may be busy, down or idle: it applies to the next cycle that STARTS
            self.pending[xop[1]] = self.pending.get(xop[1], 0) + xop[2]
        for t in w.hub.tlog:
            k = t[0]
            if k == 'received':
                name = t[1]
                d = w.dev[name]
                if isinstance(d, Sink):
                    last = self.sink_last.get(name)
                    if last is not None and now < last[0] + last[1]:
                        raise Violation('sink_cycle', f'{name} accepted at {now}, previous at {last[0]}, cycle time of that '
                                                      f'cycle {last[1]}')
                    # the cycle that starts now: configured / per-part cycle time plus one-shot offsets, floored at 0
                    sp = self.specs[name]
                    i = self.count.get(name, 0)
                    self.count[name] = i + 1
                    c = self.cur.get(name, sp.get('cycle', 0))
                    if sp.get('cycles'):
                        c = sp['cycles'][i % len(sp['cycles'])]
                    self.cur[name] = c
                    off = sp['offsets'][i % len(sp['offsets'])] if sp.get('offsets') else 0
                    if isinstance(off, (list, tuple)):
                        off = sum(off)
                    off += self.pending.pop(name, 0)
                    self.sink_last[name] = (now, max(0, c + off))
                    continue
                if not _is_cycle_dev(d):
                    continue
                if name in self.acc:
                    raise Violation('one_at_a_time', f'{name} accepted part {t[2]} while processing {self.acc[name][0]}')
                sp = self.specs[name]
                i = self.count.get(name, 0)
                self.count[name] = i + 1
                c = self.cur[name]
                if sp.get('cycles'):
                    c = sp['cycles'][i % len(sp['cycles'])]
                    self.cur[name] = c
                off = sp['offsets'][i % len(sp['offsets'])] if sp.get('offsets') else 0
                if isinstance(off, (list, tuple)):
                    off = sum(off)
                off += self.pending.pop(name, 0)
                if sp.get('slow') and t[4] < 0.5:
                    c = c * sp['slow']              # cycle time as the device's public property reports it for this part
                need = max(0, c + off)
                self.acc[name] = [t[2], need, 0]
                if need == 0:
                    w.facts.append('zero_cycle')
            elif k == 'shutdown' and t[2] and t[3] is not None:
                a = self.acc.get(t[1])
                if a is None or a[0] != t[3]:
                    raise Violation('lost_unknown', f'{t[1]} reported loss of part {t[3]} which was not in process')
                del self.acc[t[1]]
                w.facts.append('part_lost_in_process')
        # release from processing: input slot emptied
        for name in list(self.acc):
            d = w.dev[name]
            a = self.acc[name]
            if d._part is not None and d._part.id == a[0]:
                continue
            # the part left the input slot: it must be finished (output slot or handed on), on time
            if a[2] != a[1]:
                raise Violation('early' if a[2] < a[1] else 'late',
                                f'{name}: part {a[0]} released from processing after {a[2]} operational time '
                                f'units, cycle time in effect at acceptance {a[1]}')
            if isinstance(d, PartProcessor):
                fin = [t for t in w.hub.tlog if t[0] == 'finished' and t[1] == name and t[2] == a[0]]
                if len(fin) != 1:
                    raise Violation('finish_once', f'{name}: part {a[0]} finished {len(fin)} times')
            del self.acc[name]
            w.facts.append('cycle_completed')
        for t in w.hub.tlog:
            if t[0] == 'finished' and _is_cycle_dev(w.dev[t[1]]):
                # finishing something that was not (or no longer) in process
                d = w.dev[t[1]]
                held = d._output.id if d._output is not None else None
                gone = [g for g in gave_entries(w, True) if g[2] == -1 and g[4] == t[2]]
                if held != t[2] and not gone:
                    raise Violation('finish_once', f'{t[1]} finished part {t[2]} which it does not hold')
        for d in w.dev.values():
            if _is_cycle_dev(d) and d._part is not None and d.name not in self.acc:
                raise Violation('one_at_a_time', f'{d.name} holds part {d._part.id} that was never accepted')
        # sources: generation exactly one cycle after the previous part left (or after time 0)
        actor = dev_by_id(w, w.hub.actor)
        for s in w.sources():
            c = self.specs[s.name].get('cycle', 0)
            if actor is s and any(g[2] == -1 for g in gave_entries(w, True)):
                self.src_base[s.name] = now        # a part left: the next cycle starts now
            n = len(s._part_generator.items)
            if n > self.src_items[s.name]:
                if n - self.src_items[s.name] > 1:
                    raise Violation('source_cycle', f'{s.name} generated {n - self.src_items[s.name]} parts in one event')
                if now != self.src_base[s.name] + c:
                    raise Violation('source_cycle', f'{s.name} generated a part at {now}; its cycle started at '
                                                    f'{self.src_base[s.name]} with cycle time {c}')
                self.src_items[s.name] = n
                w.facts.append('source_cycle_checked')

    def start(self, w):
        # a zero-cycle source builds its first part during initialisation (time 0)
        for s in w.sources():
            n = len(s._part_generator.items)
            c = self.specs[s.name].get('cycle', 0)
            if n and (c != 0 or n != 1):
                raise Violation('source_cycle', f'{s.name} generated {n} parts during initialisation, cycle {c}')
            self.src_items[s.name] = n


# ============================================================================ C13

@monitor('shutdown')
class ShutdownMon(Monitor):
    '''C13: machine state, lost parts, callbacks, uptime/utilisation accounting.'''
    prop = 'C13'
    _canon_skip = ('pre', 'noop')

    def __init__(self):
        self.noop = None
        self.up = {}       # processor -> integral of "operational"
        self.use = {}      # processor -> integral of "processing a part"
        self.orders = {}   # processor -> [tag, start time, externally restored?]
        self.pre = {}
        self.nfail = {}    # processor -> failure-log records seen

    def procs(self, w):
        return [d for d in w.dev.values() if isinstance(d, PartProcessor)]

    def start(self, w):
        for p in self.procs(w):
            self.up[p.name] = 0
            self.use[p.name] = 0
        self.check_acct(w)

    def created(self, w, d, t0):
        if d['kind'] == 'processor':
            self.up[d['name']] = 0        # operational time is counted from the creation of the machine
            self.use[d['name']] = 0
            self.pre[d['name']] = (True, None, None)

    def before(self, w, label, ev):
        dt = ev.time - w.env.now
        self.pre = {}
        for p in self.procs(w):
            if p.is_operational():
                self.up[p.name] += dt
                if p._part is not None:
                    self.use[p.name] += dt
            self.pre[p.name] = (p.is_operational(), p._part.id if p._part is not None else None,
                                p._output.id if p._output is not None else None)
        # redundant shutdown / restore must change nothing
        self.noop = None
        op = w.executed_op(ev)
        if op is not None:
            if op[0] in ('shutdown', 'restore'):
                p = w.dev[op[1]]
                if (op[0] == 'shutdown') != p.is_operational():
                    env = w.env
                    now0 = env._now
                    queued = not getattr(ev, 'detached', False)
                    if queued:
                        env._events.remove(ev)
                    env._now = ev.time
                    from . import canon
                    self.noop = canon.digest(w.system)
                    env._now = now0
                    if queued:
                        env._events.insert(0, ev)

    def check_acct(self, w):
        for p in self.procs(w):
            if p.uptime != self.up[p.name]:
                raise Violation('uptime', f'{p.name}.uptime={p.uptime}, operational time so far {self.up[p.name]} '
                                          f'(t={w.env.now})')
            if p.utilization_time != self.use[p.name]:
                raise Violation('utilization', f'{p.name}.utilization_time={p.utilization_time}, time spent '
                                               f'processing {self.use[p.name]} (t={w.env.now})')

    def after(self, w, label, ev):
        now = w.env.now
        tl = w.hub.tlog
        nprobe = w.spec.get('probes', 0)
        if self.noop is not None:
            from . import canon
            if canon.digest(w.system) != self.noop:
                xop = w.executed_op(ev)
                raise Violation('noop', f'redundant {xop[0]} of {xop[1]} changed the state')
            w.facts.append('redundant_call_checked')
        actor = dev_by_id(w, w.hub.actor)
        state = {n: v[0] for n, v in self.pre.items()}
        i = 0
        ended_here = None      # machine whose work order ended in the log entry just before this one
        while i < len(tl):
            t = tl[i]
            k = t[0]
            if k == 'shutdown':
                name, isf, pid = t[1], t[2], t[3]
                if not isf and not state[name]:
                    raise Violation('callbacks', f'{name}: shutdown callback while already down')
                state[name] = False
                for n in range(nprobe):
                    j = i + 1 + n
                    if j >= len(tl) or tl[j] != ('probe_shutdown', name, n, isf, pid):
                        raise Violation('callbacks', f'{name}: shutdown callbacks not once each in registration '
                                                     f'order: {tl[i:i + nprobe + 1]}')
                i += nprobe
                if isf:
                    pre = self.pre[name]
                    if pid != pre[1]:
                        raise Violation('lost_part', f'{name}: failure reported lost part {pid}, part in process was {pre[1]}')
                    p = w.dev[name]
                    if p._part is not None:
                        raise Violation('lost_part', f'{name}: part still in process after failure')
                    if (p._output.id if p._output is not None else None) != pre[2]:
                        raise Violation('finished_part_kept', f'{name}: finished part {pre[2]} did not survive the failure')
                    w.facts.append('failure_with_part' if pid is not None else 'failure_without_part')
            elif k == 'probe_shutdown' or k == 'probe_restored':
                raise Violation('callbacks', f'stray probe callback {t}')
            elif k == 'restored':
                name = t[1]
                if state[name]:
                    raise Violation('callbacks', f'{name}: restored callback while operational')
                state[name] = True
                for n in range(nprobe):
                    j = i + 1 + n
                    if j >= len(tl) or tl[j] != ('probe_restored', name, n):
                        raise Violation('callbacks', f'{name}: restored callbacks not once each in order')
                i += nprobe
                for o in self.orders.get(name, []):
                    if ended_here == name:
                        raise Violation('order_keeps_down', f'{name} was put back into service by the end of another work '
                                                            f'order while order {o[0]} (started {o[1]}) is still in progress')
                    o[2] = True       # restored by someone else (an operation) while an order is active
            elif k == 'received' and t[1] in state and not state[t[1]]:
                raise Violation('accept_while_down', f'{t[1]} accepted part {t[2]} while shut down')
            elif k == 'gave' and t[6] and t[2] == -1 and actor is not None and actor.name in state \
                    and not state[actor.name]:
                raise Violation('release_while_down', f'{actor.name} released part {t[4]} while shut down')
            elif k == 'start_work':
                self.orders.setdefault(t[1], []).append([t[2], now, False])
            elif k == 'end_work':
                lst = self.orders.get(t[1], [])
                o = next((x for x in lst if x[0] == t[2]), None)
                if o is not None:
                    lst.remove(o)
                    if not lst:
                        self.orders.pop(t[1], None)
                    dur = w.dev[t[1]].wo_table.get(o[0], (0, 0, 0))[1]
                    if now != o[1] + dur:
                        raise Violation('order_duration', f'{t[1]}: order {o[0]} started {o[1]} ended {now}, duration {dur}')
                    w.facts.append('order_completed')
                ended_here = t[1]
                i += 1
                continue
            ended_here = None
            i += 1
        for p in self.procs(w):
            if state[p.name] != p.is_operational():
                raise Violation('callbacks', f'{p.name}: operational={p.is_operational()} but callbacks say {state[p.name]}')
            for o in self.orders.get(p.name, []):
                if not o[2] and p.is_operational():
                    raise Violation('order_keeps_down', f'{p.name} is operational during work order {o[0]}')
        # failure event with no callback at all
        if label[0] == 'ev' and ev_action_name(ev) == '_fail' and not ev.cancelled:
            o = ev_owner(ev)
            n = len([t for t in tl if t[0] == 'shutdown' and t[1] == o.name and t[2]])
            if n != 1:
                raise Violation('lost_part', f'{o.name}: failure reported {n} times to shutdown callbacks '
                                             f'(part in process was {self.pre[o.name][1]})')
            recs = w.env.simulation_data.get('device_failure', {}).get(o.name, [])
            k0 = self.nfail.get(o.name, 0)
            new = [tuple(r) for r in recs[k0:]]
            if new != [(now, self.pre[o.name][1])]:
                raise Violation('failure_log', f'{o.name}: failure at t={now} lost part {self.pre[o.name][1]}; failure log '
                                               f'gained {new}')
            self.nfail[o.name] = len(recs)
        self.check_acct(w)


# ============================================================================ C11

@monitor('resources')
class ResourceMon(Monitor):
    '''C11: processors hold exactly what they need; pool usage = sum of holdings.'''
    prop = 'C11'

    def procs(self, w):
        return [d for d in w.dev.values() if isinstance(d, PartProcessor) and d._resources_for_processing]

    def start(self, w):
        # what the model configured: the pools of the spec, then every capacity change the model makes
        self.cap = dict(w.spec.get('pools', {}))
        self.check(w)

    def capacity_changes(self, w):
        '''"capacity schedules that drop to zero and rise again": a change is refused iff it would take the pool below
        zero, and the pool's capacity is what the model configured.'''
        for t in w.hub.tlog:
            if t[0] != 'addres':
                continue
            _, name, amt, ok = t
            legal = amt == 0 or self.cap.get(name, 0) + amt >= 0
            if ok != legal:
                raise Violation('capacity_change', f'add_resources({name!r}, {amt}) with a capacity of {self.cap.get(name, 0)} '
                                                   f'was {"accepted" if ok else "refused"}')
            if ok and amt != 0:
                self.cap[name] = self.cap.get(name, 0) + amt
        rm = w.env.resource_manager
        for name, c in self.cap.items():
            if rm.get_resource_capacity(name) != c:
                raise Violation('capacity', f'pool {name}: capacity {rm.get_resource_capacity(name)}, the model configured {c}')

    def check(self, w):
        rm = w.env.resource_manager
        want = Counter()
        for p in self.procs(w):
            rr = p._reserved_resources
            req = {k: v for k, v in p._resources_for_processing.items() if v > 0}
            if rr is not None:
                if rr.reserved_resources != req:
                    raise Violation('holdings', f'{p.name} holds {rr.reserved_resources}, declared {req}')
                want.update(req)
                w.facts.append('holding')
            if p._part is not None and rr is None:
                raise Violation('process_without_resources', f'{p.name} has part {p._part.id} in process without holding {req}')
        for r in set(want) | set(rm._resources):
            if rm.get_resource_usage(r) != want.get(r, 0):
                raise Violation('usage', f'pool {r}: usage {rm.get_resource_usage(r)} vs holdings of processors {want.get(r, 0)}')

    def after(self, w, label, ev):
        self.capacity_changes(w)
        self.check(w)
        if label[0] == 'ev' and ev_action_name(ev) == '_fail' and not ev.cancelled:
            p = ev_owner(ev)
            if getattr(p, '_reserved_resources', None) is not None and (p._part is None or not p.is_operational()):
                # (a failure callback may restore the machine and give it a part again within the same event: that part
                # is then processed under a reservation of its own)
                raise Violation('release_on_failure', f'{p.name} still holds resources after failing')
        for t in w.hub.tlog:
            if t[0] == 'gave' and not t[6]:
                w.facts.append('refusal')

    def quiescent(self, w):
        for p in self.procs(w):
            if p._part is None and p._reserved_resources is not None:
                if p.is_operational():
                    raise Violation('idle_holding', f'{p.name} is idle and operational at t={w.env.now} but holds '
                                                    f'{p._reserved_resources.reserved_resources}')
                # "gives them back when it finishes a part without receiving the next one at the same instant, but keeps
                # them through a maintenance shutdown WITH A PART IN PROCESS"
                raise Violation('holding_without_part', f'{p.name} is shut down at t={w.env.now} with no part in process '
                                                        f'but still holds {p._reserved_resources.reserved_resources}')


# ============================================================================ C08

@monitor('route')
class RouteMon(Monitor):
    '''C08: parts move only along configured connections, through accepting gates,
    never into blocked inputs, leave groups through the path they entered by; routing
    history = observed route; collected list in arrival order; idle-longest rule.'''
    prop = 'C08'
    _canon_skip = ('pre_idle', 'kinds', 'g_in', 'g_out', 'members', 'path_group')

    def __init__(self, idle_rule=False):
        self.idle_rule = idle_rule
        self.up = {}        # device -> list of upstream names (spec, updated by 'upstream' ops)
        self.route = {}     # part/batch id -> observed route (names)
        self.stack = {}     # part/batch id -> group paths entered and not left
        self.idle_since = {}
        self.pre_idle = {}
        self.kinds = {}

    def attach(self, w):
        self.kinds = {}
        self.members = {}
        self.g_in = {}
        self.g_out = {}
        self.path_group = {}
        self.cmd_block = {}      # what the MODEL commanded (spec, operations, schedule actions), whatever the device remembers
        for d in w.spec['devices']:
            self.kinds[d['name']] = d['kind']
            if d.get('blocked'):
                self.cmd_block[d['name']] = True
            if d['kind'] == 'group':
                self.members[d['name']] = list(d['members'])
                self.g_in[d['name']] = list(d.get('inputs') or d['members'][:1])
                self.g_out[d['name']] = list(d.get('outputs') or d['members'][-1:])
            elif d['kind'] == 'path':
                self.path_group[d['name']] = d['group']
                self.up[d['name']] = list(d.get('up', []))
            elif d['kind'] != 'maintainer':
                self.up[d['name']] = list(d.get('up', []))

    def start(self, w):
        for d in w.dev.values():
            if _is_slot_dev(d):
                self.idle_since[d.name] = 0
        self.sink_full = {}
        self.check_histories(w)

    def created(self, w, d, t0):
        self.kinds[d['name']] = d['kind']
        if d['kind'] not in ('maintainer', 'group', 'obj', 'scheduler', 'psensor', 'osensor', 'cms'):
            self.up[d['name']] = list(d.get('up', []))
            if d['kind'] in ('handler', 'processor', 'sink'):
                self.idle_since[d['name']] = t0

    @staticmethod
    def _resources_free(w, d):
        '''A machine that needs resources is able to take a part only if they can be had now (or it holds them already).'''
        req = getattr(d, '_resources_for_processing', None)
        if not req or getattr(d, '_reserved_resources', None) is not None:
            return True
        rm = w.env.resource_manager
        return all(n <= 0 or rm.get_resource_capacity(r) - rm.get_resource_usage(r) >= n for r, n in req.items())

    def downstream_of(self, name):
        return [d for d, ups in self.up.items() if name in ups]

    def before(self, w, label, ev):
        # which single-slot devices could take a part right now, and since when they are idle
        self.pre_idle = {}
        for d in w.dev.values():
            if _is_slot_dev(d) and d._part is None and d._output is None and d.is_operational() \
                    and not d.block_input and self._resources_free(w, d):
                self.pre_idle[d.name] = self.idle_since.get(d.name, 0)

    def _group_of_io(self, w, dev):
        return dev._group.name

    def after(self, w, label, ev):
        now = w.env.now
        tl = w.hub.tlog
        for t in tl:
            if t[0] == 'upstream':
                self.up[t[1]] = list(t[2])
        for t in tl:
            if t[0] == 'restored' and t[1] in self.idle_since:
                d = w.dev[t[1]]
                if d._part is None and d._output is None:
                    self.idle_since[t[1]] = now      # a repaired idle machine waits for a part from the repair on
        gives = w.hub.gives
        actor = dev_by_id(w, w.hub.actor)
        # new parts appear in their source with the source as first history entry
        for s in w.sources():
            it = s._output
            if it is not None and it.id not in self.route:
                for p in [it] + (leaf_parts(it) if isinstance(it, Batch) else []):
                    self.route[p.id] = [s.name]
                    self.stack[p.id] = []
        # batches assembled by a batcher start with an empty history
        for d in w.dev.values():
            if isinstance(d, PartBatcher):
                for b in (d._in_progress_batch, d._output):
                    if isinstance(b, Batch) and b.id not in self.route:
                        self.route[b.id] = []
                        self.stack[b.id] = []
        taken = set()        # devices that accepted a part earlier in THIS event (several hand-overs by one buffer release)
        for rec in gives:
            if rec is None or not rec[6] or rec[2] != -1:
                continue
            # one accepted top-level hand-over: follow the accepted chain
            giver = actor.name if actor is not None else None
            chain = [rec]
            while True:
                kids = [g for g in gives if g is not None and g[2] == chain[-1][1] and g[6]]
                if not kids:
                    break
                if len(kids) > 1:
                    raise Violation('duplicate', f'part {rec[4]} accepted by several receivers: {[k[3] for k in kids]}')
                chain.append(kids[0])
            pid, lv = rec[4], rec[5]
            ids = [pid] + [x for x in lv if x != pid]
            prev = giver
            prev_dev = actor
            prev_dev_of_last = None
            exit_entry = None
            for g in chain:
                rname = g[3]
                rdev = None
                for a in w.system._assets:
                    if getattr(a, 'name', None) == rname and isinstance(a, PartFlowController):
                        rdev = a
                        break
                if g[10] or self.cmd_block.get(rname):
                    raise Violation('blocked_input', f'part {pid} entered {rname} whose input is blocked'
                                    + ('' if g[10] else ' (blocked by the model; the device itself no longer says so)'))
                # edge check against the specification graph
                if isinstance(prev_dev, GroupOutput):
                    # the part leaves the group of prev_dev: through the innermost path it entered by
                    gname = prev_dev._group.name
                    st = self.stack.get(pid, [])
                    if not st:
                        raise Violation('group_exit', f'part {pid} leaves group {gname} without having entered it')
                    entry = st[-1]
                    if self.path_group.get(entry) != gname:
                        raise Violation('group_exit', f'part {pid} leaves group {gname} but its innermost entered '
                                                      f'path is {entry} of group {self.path_group.get(entry)}')
                    if pid in self.stack and self.stack[pid]:
                        self.stack[pid].pop()
                    w.facts.append('group_exit')
                    exit_entry = entry
                    if isinstance(rdev, GroupOutput):
                        # nested groups: the inner path is the last device of the enclosing group
                        if entry not in self.g_out[rdev._group.name]:
                            raise Violation('group_exit', f'part {pid} left group {gname} through {entry} into the output of group '
                                                          f'{rdev._group.name}, whose output devices are {self.g_out[rdev._group.name]}')
                        w.facts.append('nested_group_exit')
                    elif rname not in self.downstream_of(entry):
                        raise Violation('group_exit', f'part {pid} entered group {gname} through {entry} but left '
                                                      f'towards {rname}, which is not downstream of {entry}')
                elif isinstance(rdev, GroupInput):
                    if self.kinds.get(prev) != 'path' or self.path_group[prev] != rdev._group.name:
                        raise Violation('edge', f'{prev} -> input of group {rdev._group.name} is not configured')
                elif isinstance(rdev, GroupOutput):
                    gname = rdev._group.name
                    if prev not in self.g_out[gname]:
                        raise Violation('edge', f'{prev} -> output of group {gname}: not an output device of the group')
                elif isinstance(prev_dev, GroupInput):
                    gname = prev_dev._group.name
                    if rname not in self.g_in[gname]:
                        raise Violation('edge', f'input of group {gname} -> {rname}: not an input device of the group')
                else:
                    if prev not in self.up.get(rname, []):
                        raise Violation('edge', f'part {pid} moved {prev} -> {rname}: not a configured connection')
                if self.kinds.get(rname) == 'gate':
                    from .line import DECIDERS
                    dec = self.spec_of(w, rname).get('decider', 'all')
                    q = g[9]
                    # (deciders that go by the route a part has taken -- 'again' / 'done' -- are not re-derived here)
                    ok = {'q_ge': q >= 0.5, 'q_lt': q < 0.5, 'all': True, 'q_ge_none': q >= 0.5, 'q_lt_none': q < 0.5}.get(dec, True)
                    if not ok:
                        raise Violation('gate', f'part {pid} (quality {q}) passed gate {rname} ({dec})')
                    w.facts.append('gate_pass')
                if not isinstance(rdev, (GroupInput, GroupOutput)):
                    for i in ids:
                        self.route.setdefault(i, []).append(rname)
                if self.kinds.get(rname) == 'path':
                    # the entered-path stack travels with the item handed over (a batch carries it for its parts)
                    self.stack.setdefault(pid, []).append(rname)
                prev_dev_of_last = prev_dev
                prev, prev_dev = rname, rdev
            final = chain[-1][3]
            fdev = w.dev.get(final)
            if fdev is None or not isinstance(fdev, PartHandler):
                raise Violation('edge', f'part {pid} accepted by {final}, which cannot hold parts')
            # idle-longest rule among parallel single-slot candidates of the giver
            eff = giver
            if len(chain) == 2 and isinstance(prev_dev_of_last, GroupOutput) and exit_entry is not None:
                eff = exit_entry         # a part leaving a group is offered to the devices behind the path it entered by
            via_passthrough = len(chain) >= 2 and eff is giver and \
                all(self.kinds.get(g[3]) in ('gate', 'flow') for g in chain[:-1])
            if self.idle_rule and _is_slot_dev(fdev) and (len(chain) == 1 or eff is not giver or via_passthrough):
                # candidates: single-slot devices that could take the part now, directly behind the giver or behind
                # unblocked pass-through devices (a pass-through device ranks by the longest-idle device behind it)
                cands = [c for c in self.idle_candidates(w, eff, rec[9]) if c not in taken]
                if final in self.pre_idle and len(cands) > 1 and final in cands:
                    best = min(self.pre_idle[c] for c in cands)
                    if self.pre_idle[final] != best:
                        raise Violation('idle_longest', f'{giver} gave part {pid} to {final} (idle since '
                                                        f'{self.pre_idle[final]}) although '
                                                        f'{[c for c in cands if self.pre_idle[c] == best]} idle since {best}')
                    w.facts.append('idle_choice')
            taken.add(final)
            if giver in self.idle_since and actor._part is None and actor._output is None:
                self.idle_since[giver] = now
        # a sink is idle again when its (possibly zero-length) cycle is over: empty now, and either it held a part before
        # this event or it received one within it
        sink_full = getattr(self, 'sink_full', None)
        if sink_full is None:
            sink_full = self.sink_full = {}
        for nm, d in w.dev.items():
            if isinstance(d, Sink) and nm in self.idle_since:
                empty = d._part is None and d._output is None
                if empty and (sink_full.get(nm) or nm in taken):
                    self.idle_since[nm] = now
                sink_full[nm] = not empty
        # refused top-level attempts: note for vacuity
        if any(g is not None and not g[6] for g in gives):
            w.facts.append('refusal')
        # what the model commands from now on: block operations and the schedule actions that open / close an input
        xop = w.executed_op(ev)
        if xop is not None and xop[0] == 'block':
            self.cmd_block[xop[1]] = bool(xop[2])
        for t in tl:
            if t[0] == 'sched_action' and t[5] == 'default' and t[2] in self.kinds:
                self.cmd_block[t[2]] = (t[4] == 'off')
        self.check_histories(w)

    def idle_candidates(self, w, giver, quality, depth=0):
        out = []
        for c in self.downstream_of(giver):
            k = self.kinds.get(c)
            if c in self.pre_idle:
                out.append(c)
            elif k in ('gate', 'flow') and depth < 4:
                d = w.dev.get(c)
                if d is None or d.block_input:
                    continue
                if k == 'gate':
                    dec = self.spec_of(w, c).get('decider', 'all')
                    ok = {'q_ge': quality is not None and quality >= 0.5, 'q_lt': quality is not None and quality < 0.5,
                          'all': True, 'q_ge_none': quality is not None and quality >= 0.5,
                          'q_lt_none': quality is not None and quality < 0.5}.get(dec, True)
                    if not ok:
                        continue
                out.extend(self.idle_candidates(w, c, quality, depth + 1))
        return out

    def spec_of(self, w, name):
        for d in w.spec['devices']:
            if d['name'] == name:
                return d
        return {}

    def check_histories(self, w):
        live = []
        top = set()
        for d in w.flow_devices():
            for it in held_items(d):
                live.append(it)
                top.add(id(it))
                if isinstance(it, Batch):
                    live.extend(leaf_parts(it))
            if isinstance(d, Sink):
                items = w.hub.delivered_items.get(d.name, [])
                got = [p.id for p in d.collected_parts]
                if got != items:
                    raise Violation('collected_order', f'{d.name}.collected_parts {got} vs arrival order {items}')
                for it in d.collected_parts:
                    live.append(it)
                    if isinstance(it, Batch):
                        live.extend(leaf_parts(it))
        for p in live:
            want = self.route.get(p.id)
            if want is None:
                continue
            got = [x.name for x in p.routing_history]
            if got != want:
                raise Violation('routing_history', f'part {p.id}: routing history {got}, observed route {want}')
            if id(p) not in top:
                continue          # members of a batch: the batch carries the entered-path stack
            gp = [x.name for x in p._group_pathing]
            if gp != self.stack.get(p.id, []):
                raise Violation('group_stack', f'part {p.id}: entered-path stack {gp}, observed {self.stack.get(p.id, [])}')


# ============================================================================ C17

@monitor('batching')
class BatchMon(Monitor):
    '''C17: order and exact batch sizes through batchers; acceptance discipline.'''
    prop = 'C17'
    _canon_skip = ('pre',)

    def __init__(self):
        self.inq = {}     # batcher -> leaf ids that entered and have not left, in order
        self.pre = {}

    def batchers(self, w):
        return [d for d in w.dev.values() if isinstance(d, PartBatcher)]

    def before(self, w, label, ev):
        self.pre = {b.name: (b._part is None, b._output is None) for b in self.batchers(w)}

    def inside(self, b):
        out = []
        out.extend(leaves(b._output))
        out.extend(leaves(b._in_progress_batch))
        out.extend(leaves(b._part))
        return out

    def after(self, w, label, ev):
        actor = dev_by_id(w, w.hub.actor)
        for b in self.batchers(w):
            q = self.inq.setdefault(b.name, [])
            n = b.output_batch_size
            seen_receive = False
            for t in w.hub.tlog:
                if t[0] == 'received' and t[1] == b.name:
                    if seen_receive or not all(self.pre[b.name]):
                        raise Violation('accept_discipline', f'{b.name} accepted input while it still had something '
                                                             f'to unpack or a part waiting to leave')
                    seen_receive = True
                    q.extend(t[3])
                    w.facts.append('batcher_in:' + ('batch' if len(t[3]) != 1 or t[2] not in t[3] else 'single'))
                elif t[0] == 'gave' and t[6] and t[2] == -1 and actor is b:
                    lv = list(t[5])
                    if n is None:
                        if t[7] or len(lv) != 1:
                            raise Violation('batch_size', f'{b.name} (single-part output) emitted {lv}')
                    else:
                        if not t[7] or len(lv) != n:
                            raise Violation('batch_size', f'{b.name} emitted {"a batch of" if t[7] else "a single part"} '
                                                          f'{lv}; configured size {n}')
                    if q[:len(lv)] != lv:
                        raise Violation('batch_order', f'{b.name} emitted {lv} but parts arrived in order {q}')
                    del q[:len(lv)]
                    w.facts.append('batcher_out')
            if q != self.inside(b):
                raise Violation('batch_order', f'{b.name}: parts inside in order {self.inside(b)} but arrival order '
                                               f'of parts not yet emitted is {q}')
            ipb = b._in_progress_batch
            if ipb is not None and n is not None and len(ipb.parts) >= n:
                raise Violation('batch_size', f'{b.name}: batch under construction has {len(ipb.parts)} >= {n} parts')
            if b._output is not None and n is not None and (not isinstance(b._output, Batch) or len(b._output.parts) != n):
                raise Violation('batch_size', f'{b.name}: output waiting to leave is not a batch of {n}')
        # history updates reach all contained parts; counts by leaves
        for d in w.flow_devices():
            for it in held_items(d):
                if isinstance(it, Batch):
                    hb = [x.name for x in it.routing_history]
                    members = []
                    stack = list(it.parts)
                    while stack:                     # members at every depth (batches may contain batches)
                        p = stack.pop()
                        members.append(p)
                        if isinstance(p, Batch):
                            stack.extend(p.parts)
                    for p in members:
                        hp = [x.name for x in p.routing_history]
                        if hb and hp[-len(hb):] != hb:
                            raise Violation('batch_history', f'batch {it.id} history {hb} not applied to part {p.id}: {hp}')
            if isinstance(d, Sink):
                if d.received_parts_count != len(w.hub.delivered.get(d.name, [])):
                    raise Violation('leaf_count', f'{d.name}.received_parts_count={d.received_parts_count} but '
                                                  f'{len(w.hub.delivered.get(d.name, []))} parts delivered')
            if isinstance(d, Buffer):
                nleaf = sum(len(leaves(p)) for p in d.stored_parts)
                if d.level() != nleaf:
                    raise Violation('leaf_count', f'{d.name}.level()={d.level()} but holds {nleaf} parts')
                if nleaf > d.capacity:
                    raise Violation('leaf_count', f'{d.name} holds {nleaf} parts (every part of a batch counts), capacity {d.capacity}')


@monitor('nesthistory')
class NestHistory(Monitor):
    '''C08 / C17, history clause for batches at every depth: whatever a travelling batch's history says, the history of
    every part it contains (directly or inside an inner batch) ends with the same devices.'''
    prop = 'C17'

    def after(self, w, label, ev):
        for d in w.flow_devices():
            items = list(held_items(d)) + (list(d.collected_parts) if isinstance(d, Sink) else [])
            for it in items:
                if not isinstance(it, Batch):
                    continue
                hb = [x.name for x in it.routing_history]
                stack = list(it.parts)
                while stack:
                    p = stack.pop()
                    if isinstance(p, Batch):
                        stack.extend(p.parts)
                    hp = [x.name for x in p.routing_history]
                    if hp != hb:
                        raise Violation('batch_history', f'batch {it.id} went through {hb}; the history of part {p.id} inside it '
                                                         f'(depth >= 1) says {hp}')
                    w.facts.append('nested_history_checked')


# ============================================================================ C18

def copy_of(x):
    import copy
    return copy.deepcopy(x)


@monitor('schedule')
class ScheduleMon(Monitor):
    '''C18: the state of every action scheduler is what its timetable prescribes (reference timetable by repeated
    addition, independent of the scheduler's own events); at every change, and once at start-up, the action is invoked
    once per currently registered object, in registration order, with (scheduler, object, now, new state).'''
    prop = 'C18'
    _canon_skip = ('specs',)

    def __init__(self):
        self.ref = {}
        self.specs = {}

    def attach(self, w):
        for d in w.spec['devices']:
            if d['kind'] == 'scheduler':
                self.add(d, 0)

    def add(self, d, t0):
        '''t0: the time at which the scheduler starts (0, or its creation time when created while running).'''
        self.specs[d['name']] = d
        self.ref[d['name']] = {'idx': 0, 'state': None, 'next': None,
                               'reg': [[x[0], 'override' if x[1] == 'creator' else x[1]] for x in d.get('targets', [])],
                               't0': t0, 'nrec': 0, 'started': False}

    def created(self, w, d, t0):
        if d['kind'] == 'scheduler':
            self.add(d, t0)
            if not w.system._simulation_is_initialized:
                # created by another asset's start-up action, during the one-time initialisation pass: it is initialised
                # later in that pass like an asset that existed before (obligations checked by start())
                return
            # a scheduler created while running starts up inside its constructor, i.e. before anything can be
            # registered with it: its targets are registered afterwards and are affected from the next change on
            reg = self.ref[d['name']]['reg']
            self.ref[d['name']]['reg'] = []
            self.startup(w, d['name'], [t for t in w.hub.tlog])
            self.ref[d['name']]['reg'] = reg
            self.ref[d['name']]['skip_once'] = True

    def startup(self, w, name, tl):
        '''Obligations at start-up: first state, one record, one action per registered object.'''
        r = self.ref[name]
        sch = self.specs[name]['schedule']
        r['state'] = sch[0][1]
        r['next'] = r['t0'] + sch[0][0]
        r['started'] = True
        self.expect(w, name, tl, r['t0'], True)

    def expect(self, w, name, tl, now, changed):
        r = self.ref[name]
        lag = [t for t in tl if t[0] == 'sched_state_lag' and t[1] == name]
        if lag:
            raise Violation('state', f'{name}: while its actions were being invoked at t={now} current_state was '
                                     f'{lag[0][2]!r}, the state the timetable prescribes (and the actions were told) is {lag[0][3]!r}')
        acts = [t for t in tl if t[0] == 'sched_action' and t[1] == name]
        want = [('sched_action', name, o, now, r['state'], mode) for o, mode in r['reg']] if changed else []
        if acts != want:
            raise Violation('actions', f'{name} at t={now}: actions invoked {acts}, expected (registration order, once each, '
                                       f'(scheduler, object, now, new state)) {want}')
        recs = w.env.simulation_data.get('schedule_update', {}).get(name, [])
        new = [tuple(x) for x in recs[r['nrec']:]]
        wantr = [(now, r['state'])] if changed else []
        if new != wantr:
            raise Violation('schedule_record', f'{name} at t={now}: schedule_update records {new}, expected {wantr}')
        r['nrec'] = len(recs)
        if acts:
            w.facts.append('actions_invoked')

    def start(self, w):
        tl = list(w.hub.tlog)
        for name in self.ref:
            self.startup(w, name, tl)
        self.static(w)

    def before(self, w, label, ev):
        for name, r in self.ref.items():
            if r['started'] and r['next'] is not None and ev.time > r['next']:
                raise Violation('missed_change', f'{name}: timetable prescribes a change at t={r["next"]} but the next event '
                                                 f'executes at t={ev.time}')

    def after(self, w, label, ev):
        now = w.env.now
        tl = w.hub.tlog
        for t in tl:
            if t[0] == 'reg':
                r = self.ref[t[1]]
                known = any(o == t[2] for o, m in r['reg'])
                if t[4] == known:
                    raise Violation('register_result', f'register_object({t[2]}) on {t[1]} returned {t[4]}, already '
                                                       f'registered={known}')
                if not known:
                    r['reg'].append([t[2], t[3]])
                w.facts.append('registered_during_run')
            elif t[0] == 'unreg':
                r = self.ref[t[1]]
                known = any(o == t[2] for o, m in r['reg'])
                if t[3] != known:
                    raise Violation('register_result', f'unregister_object({t[2]}) on {t[1]} returned {t[3]}, registered={known}')
                r['reg'] = [x for x in r['reg'] if x[0] != t[2]]
                w.facts.append('unregistered_during_run')
        for name, r in self.ref.items():
            if not r['started']:
                continue
            if r.pop('skip_once', False):
                continue          # created in this very transition: start-up obligations were checked at creation
            sched = w.dev[name]
            own = ev_owner(ev) is sched and ev_action_name(ev) == '_update_state' and not ev.cancelled
            changed = False
            if own:
                sp = self.specs[name]
                sch = sp['schedule']
                if r['next'] is None:
                    raise Violation('spurious_change', f'{name}: transition event at t={now} after a non-cyclical schedule ended')
                if now != r['next']:
                    raise Violation('change_time', f'{name}: transition at t={now}, timetable prescribes t={r["next"]}')
                i = r['idx'] + 1
                if not sp.get('cyclical', True) and i >= len(sch):
                    r['next'] = None             # stays in its last state forever
                    w.facts.append('schedule_ended')
                else:
                    i %= len(sch)
                    if i == 0:
                        w.facts.append('schedule_wrapped')
                    r['idx'] = i
                    r['state'] = sch[i][1]
                    r['next'] = now + sch[i][0]
                    changed = True
                    w.facts.append('state_change')
            self.expect(w, name, tl, now, changed)
        self.static(w)

    def static(self, w):
        for name, r in self.ref.items():
            if not r['started']:
                continue
            s = w.dev[name]
            if s.current_state != r['state']:
                raise Violation('state', f'{name}.current_state={s.current_state!r} at t={w.env.now}, timetable says {r["state"]!r}')
            got = [getattr(o, '_hkey', getattr(o, 'name', '?')) for o in s._registered_objects]
            if got != [o for o, m in r['reg']]:
                raise Violation('registry', f'{name}: registered objects {got}, expected {[o for o, m in r["reg"]]}')

    def final(self, w):
        for name, r in self.ref.items():
            if r['started'] and r['next'] is not None and r['next'] <= w.env.now:
                raise Violation('missed_change', f'{name}: run ended at {w.env.now} but the change due at {r["next"]} never happened')


# ============================================================================ C19

@monitor('sensors')
class SensorMon(Monitor):
    '''C19: sampling instants (k-fold repeated addition), first-then-every-(n+1)-th finished part, a copy per probe,
    callbacks once each in order with (sensor, now, values), bounded aligned series, CMS hook once per measurement.'''
    prop = 'C19'
    _canon_skip = ('specs',)

    def __init__(self):
        self.ref = {}
        self.specs = {}

    def attach(self, w):
        for d in w.spec['devices']:
            if d['kind'] in ('psensor', 'osensor'):
                self.add(w, d, 0)

    def created(self, w, d, t0):
        if d['kind'] in ('psensor', 'osensor'):
            self.add(w, d, t0)
        if d['kind'] == 'cms':
            for sname in d.get('sensors', []):
                if sname in self.ref and d['name'] not in self.ref[sname]['cms']:
                    self.ref[sname]['cms'].append(d['name'])

    def add(self, w, d, t0):
        self.specs[d['name']] = d
        cms = []
        for c in w.spec['devices']:
            if c['kind'] == 'cms' and d['name'] in c.get('sensors', []) and c['name'] not in cms and \
                    (c['name'] in w.dev or t0 == 0):
                cms.append(c['name'])
        r = {'kind': d['kind'], 'series': [[] for _ in d['probes']], 'times': [], 'count': 0, 'last': [], 'cms': cms,
             't0': t0}
        if d['kind'] == 'psensor':
            r['next'] = t0 + d['interval']
        else:
            r['finished'] = 0
        self.ref[d['name']] = r

    def before(self, w, label, ev):
        for name, r in self.ref.items():
            if r['kind'] == 'psensor' and ev.time > r['next'] and name in w.dev:
                raise Violation('missed_sample', f'{name}: measurement due at t={r["next"]} but the next event executes at t={ev.time}')

    def measure(self, w, name, values, now, tl_slice):
        import copy
        r = self.ref[name]
        d = self.specs[name]
        cap = d.get('data_capacity')
        r['count'] += 1
        r['last'] = copy.deepcopy(values)
        for i, v in enumerate(values):
            r['series'][i].append(copy.deepcopy(v))
            if cap is not None and len(r['series'][i]) > cap:
                r['series'][i].pop(0)
        if r['kind'] == 'psensor':
            r['times'].append(now)
            if cap is not None and len(r['times']) > cap:
                r['times'].pop(0)
        nb = d.get('callbacks', 1)
        want = [('sense_cb', name, n, now, values) for n in range(nb)]
        for c in r['cms']:
            want.append(('cms', c, name, now, values))
            late = next((x for x in w.spec['devices'] + list(w.spec.get('late', [])) if x['name'] == c), {}).get('late_callbacks', {})
            for j in range(late.get(name, 0)):
                want.append(('sense_cb', name, nb + j, now, values))
                
        got = [t for t in tl_slice if t[0] in ('sense_cb', 'cms') and (t[1] == name if t[0] == 'sense_cb' else t[2] == name)]
        if got != want:
            raise Violation('callbacks', f'{name} at t={now}: on-sense callbacks / CMS hook {got}, expected once each in '
                                         f'registration order with (sensor, now, values): {want}')
        w.facts.append('measurement')
        if cap is not None and r['count'] > cap:
            w.facts.append('series_trimmed')

    def after(self, w, label, ev):
        now = w.env.now
        tl = w.hub.tlog
        for t in tl:
            if t[0] == 'series_misaligned':
                raise Violation('series', f'{t[1]} at t={t[2]}: while the on-sense callbacks run the stored series have different '
                                          f'lengths {t[3]} (every series keeps exactly the last min(count, capacity) entries)')
        for name, r in self.ref.items():
            if name not in w.dev:
                continue
            s = w.dev[name]
            d = self.specs[name]
            if r['kind'] == 'psensor':
                own = ev_owner(ev) is s and ev_action_name(ev) == '_periodic_sense' and not ev.cancelled
                if own:
                    if now != r['next']:
                        raise Violation('sample_time', f'{name}: measurement at t={now}, due at t={r["next"]} '
                                                       f'(k-fold repeated addition of {d["interval"]})')
                    vals = [getattr(w.dev[tgt], attr, None) for tgt, attr in d['probes']]
                    self.measure(w, name, vals, now, tl)
                    r['next'] = now + d['interval']
                elif [t for t in tl if (t[0] == 'sense_cb' and t[1] == name) or (t[0] == 'cms' and t[2] == name)]:
                    raise Violation('callbacks', f'{name}: callbacks invoked at t={now} without a measurement being due')
            else:
                n = d.get('sensing_interval', 0)
                idx = [i for i, t in enumerate(tl) if t[0] == 'finished' and t[1] == d['processor']]
                sensed_any = False
                for j, i in enumerate(idx):
                    t = tl[i]
                    r['finished'] += 1
                    hi = idx[j + 1] if j + 1 < len(idx) else len(tl)
                    sl = tl[i:hi]
                    if (r['finished'] - 1) % (n + 1) == 0:
                        # (a processing step registered after the sensor object was built, before the start, is applied
                        # before the measurement: the sensor hooks in when the simulation starts)
                        vals = [{'quality': t[4] + (d.get('post_dq') or 0), 'value': t[5], 'id': t[2]}[a] for a in d['probes']]
                        self.measure(w, name, vals, now, sl)
                        sensed_any = True
                    elif [x for x in sl if (x[0] == 'sense_cb' and x[1] == name) or (x[0] == 'cms' and x[2] == name)]:
                        raise Violation('sensing_interval', f'{name}: part number {r["finished"]} finished by {d["processor"]} was '
                                                            f'measured; sensing interval {n} (first, then every {n + 1}-th)')
                manual = [x for x in tl if x[0] == 'manual_sense' and x[1] == name]
                if manual and not idx:
                    # a measurement taken by hand (public sense()): recorded and delivered like any other, and it does not
                    # disturb the count of finished parts that decides which part is measured next
                    vals = [copy_of(getattr(p.target, p._attribute_name, None)) for p in s.probes]
                    vals = list(s.last_sense) if len(s.last_sense) == len(vals) else vals
                    self.measure(w, name, vals, now, tl)
                elif not idx and [x for x in tl if (x[0] == 'sense_cb' and x[1] == name) or (x[0] == 'cms' and x[2] == name)]:
                    raise Violation('callbacks', f'{name}: callbacks invoked at t={now} although no part was finished')
        self.static(w)

    def start(self, w):
        self.static(w)

    def static(self, w):
        for name, r in self.ref.items():
            if name not in w.dev:
                continue
            s = w.dev[name]
            d = self.specs[name]
            cap = d.get('data_capacity')
            for i, p in enumerate(s.probes):
                got = s.data.get(p)
                if got != r['series'][i]:
                    raise Violation('series', f'{name}: stored series of probe {i} is {got}, expected the last '
                                              f'min(count, capacity={cap}) copies of the probed values {r["series"][i]}')
            if r['kind'] == 'psensor':
                got = s.data.get('time')
                if got != r['times']:
                    raise Violation('time_series', f'{name}: stored time series {got}, expected {r["times"]} (same length '
                                                   f'as the probe series, capacity {cap})')
            if list(s.last_sense) != r['last']:
                raise Violation('last_sense', f'{name}.last_sense={s.last_sense}, expected {r["last"]}')

    def final(self, w):
        for name, r in self.ref.items():
            if r['kind'] == 'psensor' and name in w.dev and r['next'] <= w.env.now:
                raise Violation('missed_sample', f'{name}: run ended at {w.env.now}, measurement due at {r["next"]} never taken')


# ============================================================================ C20

@monitor('lifecycle')
class LifecycleMon(Monitor):
    '''C20 (in situ): registration with the active system, exactly one initialisation (observed by a logging wrapper
    around Asset.initialize), never again when a simulation is continued, look-up = filter of the registered list.'''
    prop = 'C20'

    def __init__(self):
        self.registered = []      # asset ids in registration order
        self.inits = {}           # asset id -> number of initialisations

    def start(self, w):
        self.registered = [a.id for a in w.system._assets]
        for t in w.hub.tlog:
            if t[0] == 'initialize':
                self.inits[t[3]] = self.inits.get(t[3], 0) + 1
        for a in w.system._assets:
            if self.inits.get(a.id, 0) != 1:
                raise Violation('initialised_once', f'{a.name} initialised {self.inits.get(a.id, 0)} times by the first simulate()')
            if a.env is not w.env:
                raise Violation('initialised_once', f'{a.name}.env is not the environment of its system after initialisation')
        if len(set(self.registered)) != len(self.registered):
            raise Violation('unique_ids', f'asset ids are not unique: {sorted(self.registered)}')
        self.lookup(w)

    def after(self, w, label, ev):
        created = [t for t in w.hub.tlog if t[0] == 'created']
        known = set(self.registered) | set(w.dev[c[1]].id for c in created if c[2] not in ('obj', 'group'))
        for t in w.hub.tlog:
            if t[0] == 'initialize' and t[3] in known:
                self.inits[t[3]] = self.inits.get(t[3], 0) + 1
        for c in created:
            if c[2] in ('obj', 'group'):
                continue
            o = w.dev[c[1]]
            self.registered.append(o.id)
            if self.inits.get(o.id, 0) != 1:
                raise Violation('late_initialised', f'{c[1]} ({c[2]}) created at t={c[3]} while the simulation is running was '
                                                    f'initialised {self.inits.get(o.id, 0)} times')
            if o.env is not w.env:
                raise Violation('late_initialised', f'{c[1]} ({c[2]}) created at t={c[3]}: its environment is {o.env!r} after '
                                                    f'construction, so it cannot take part in the simulation')
            w.facts.append('late_created:' + c[2])
        for n, k in self.inits.items():
            if k > 1:
                raise Violation('initialised_once', f'asset #{n} initialised {k} times')
        got = [a.id for a in w.system._assets]
        if got != self.registered:
            raise Violation('registry', f'registered assets {[a.name for a in w.system._assets]} (ids {got}), expected ids in '
                                        f'creation order {self.registered}')
        if len(set(got)) != len(got):
            raise Violation('unique_ids', f'asset ids are not unique: {sorted(got)}')
        if created:
            self.lookup(w)

    def final(self, w):
        self.lookup(w)

    def lookup(self, w):
        from simprocesd.model.factory_floor import Source as _S, PartProcessor as _P, PartHandler as _H, Maintainer as _M
        assets = list(w.system._assets)
        some = assets[len(assets) // 2]
        names = (None, some.name, 'no such asset')
        ids = (None, int(str(some.id)), 987654)       # equal to the id, not the same int object
        types = (None, type(some), _S, _P)
        subs = (None, _H, _M, _P)
        for nm in names:
            for i in ids:
                for ty in types:
                    for sb in subs:
                        got = w.system.find_assets(name=nm, id_=i, type_=ty, subtype=sb)
                        want = [a for a in assets if (nm is None or a.name == nm) and (i is None or a.id == i)
                                and (ty is None or type(a) is ty) and (sb is None or isinstance(a, sb))]
                        if len(got) != len(want) or any(x is not y for x, y in zip(got, want)):
                            raise Violation('find_assets', f'find_assets(name={nm}, id_={i}, type_={ty}, subtype={sb}) -> '
                                                           f'{[a.name for a in got]}, registered assets matching all filters: '
                                                           f'{[a.name for a in want]}')
        w.facts.append('lookup_checked')


# ============================================================================ C04

def serial_reference(spec, horizon, max_parts=64):
    '''Blocking-after-service max-plus recurrence for Source -> stations -> Sink (DESIGN.md section 5, C04).
    Returns {station name: [arrival times <= horizon]} for stations 1..n+1.'''
    devs = [d for d in spec['devices'] if d['kind'] in ('source', 'handler', 'processor', 'buffer', 'sink')]
    n = len(devs)
    c = []
    K = []
    for d in devs:
        if d['kind'] == 'buffer':
            c.append(d.get('delay', 0))
            K.append(INF if d.get('capacity') is None else d['capacity'])
        else:
            c.append(d.get('cycle', 0))
            K.append(1)
    budget = devs[0].get('budget')
    budget = INF if budget is None else budget
    D = [[None] * (max_parts + 1) for _ in range(n)]       # D[j][k], k from 1
    A = [[None] * (max_parts + 1) for _ in range(n)]
    for k in range(1, max_parts + 1):
        for j in range(n):
            if j == 0:
                a = 0 if k == 1 else D[0][k - 1]
            else:
                a = D[j - 1][k]
            A[j][k] = a
            if j == n - 1:                # sink: the slot is free c after reception
                D[j][k] = a + c[j]
                continue
            d = a + c[j]
            if k > 1:
                d = max(d, D[j][k - 1])
            Kn = K[j + 1]
            if Kn != INF and k - Kn >= 1:
                d = max(d, D[j + 1][int(k - Kn)])
            if j == 0 and k > budget:
                d = INF
            D[j][k] = d
        if A[1][k] is not None and A[1][k] > horizon:
            break
    out = {}
    for j in range(1, n):
        out[devs[j]['name']] = [A[j][k] for k in range(1, max_parts + 1)
                                if A[j][k] is not None and A[j][k] <= horizon]
    return out


@monitor('recurrence')
class RecurrenceMon(Monitor):
    '''C04: in every explored schedule the arrival times at every station equal the reference recurrence exactly.'''
    prop = 'C04'

    def final(self, w):
        ref = serial_reference(w.spec, w.horizon, w.spec.get('max_parts', 64))
        sd = w.env.simulation_data.get('received_part', {})
        for name, want in ref.items():
            got = [r[0] for r in sd.get(name, [])]
            if got != want:
                i = next((k for k, (a, b) in enumerate(zip(got, want)) if a != b), min(len(got), len(want)))
                raise Violation('timing', f'{name}: part {i + 1} arrived at {got[i] if i < len(got) else "never"}, reference '
                                          f'recurrence says {want[i] if i < len(want) else "never (within the horizon)"}; '
                                          f'arrivals {got} vs {want}')
        sinkname = [d['name'] for d in w.spec['devices'] if d['kind'] == 'sink'][0]
        k = w.dev[sinkname]
        if k.received_parts_count != len(ref[sinkname]):
            raise Violation('sink_count', f'{sinkname} received {k.received_parts_count} parts, reference {len(ref[sinkname])}')
        if ref[sinkname]:
            w.facts.append('parts_through')
        w.facts.append('timing_compared')


@monitor('examplecount')
class ExampleCount(Monitor):
    '''C04: the part count the project documents for a serial example.'''
    prop = 'C04'

    def final(self, w):
        want = w.spec.get('documented_count')
        k = [d for d in w.dev.values() if isinstance(d, Sink)][0]
        if want is not None and k.received_parts_count != want:
            raise Violation('documented_count', f'{w.spec["name"]}: sink received {k.received_parts_count} parts, the example documents {want}')
        w.facts.append('documented_count_checked')


# ============================================================================ C14 (a): splitting a run

@monitor('splitinv')
class SplitInv(Monitor):
    '''C14: running for a and then for b gives the same evolution as running once for a+b with the tie-break choices
    held fixed.  One-step bisimulation at every explored split point: for every event that can be dispatched next,
    the state reached from "just before the split" equals the state reached from "after split and resume"; by state
    matching the equality extends to whole evolutions.'''
    prop = 'C14'
    _canon_skip = ('snap', 'pos')

    def __init__(self):
        self.snap = None
        self.xops = []
        self.pos = None

    def presplit(self, w):
        self.snap = None
        self.xops = []
        self.pos = None
        if w.mode != 'e1':
            return       # the comparison forks E1 worlds; E2 replays only re-derive final states (see linejobs.replay_line)
        self.snap = w.fork()

    def before(self, w, label, ev):
        if label[0] == 'split':
            self.pos = label[1]

    def after(self, w, label, ev):
        if label[0] == 'xop':
            # an operation issued between the two runs: the unsplit twin performs the same operation from an event at
            # the time of the split
            self.xops.append(label[1])

    def resumed(self, w):
        snap, self.snap = self.snap, None
        xops, self.xops = self.xops, []
        if snap is None or w.mode != 'e1':
            return
        from . import canon
        cur = w.fork()
        a0 = restore(snap)
        if xops:
            if a0._head_for_ops() is None:
                return            # nothing but TERMINATE pending: no position to inject the twin's operations at
            for n_, i in enumerate(xops):
                # the first operation moves the twin's clock to the split time; the following ones happen at that
                # instant, before anything the earlier ones scheduled there (as between the runs)
                if n_ == 0:
                    pos = self.pos
                else:
                    h = a0._head_for_ops()
                    if h is None:
                        return
                    pos = 'pre' if h.time == a0.env.now else 'end'
                a0.apply(('op', i, pos))
            snap = a0.fork()
            a0 = restore(snap)
            w.facts.append('split_with_operations_compared')
        b0 = restore(cur)
        la = [l for l in a0.menu() if l[0] == 'ev']
        lb = [l for l in b0.menu() if l[0] == 'ev']
        if sorted(la) != sorted(lb):
            raise Violation('split_invariance', f'at t={w.env.now}: events offered next without the split {sorted(la)} vs after '
                                                f'split+resume {sorted(lb)}')
        for lab in la:
            a = restore(snap)
            b = restore(cur)
            ra = rb = None
            try:
                a.apply(lab)
            except Violation as v:
                ra = v.clause
            try:
                b.apply(lab)
            except Violation as v:
                rb = v.clause
            if ra != rb:
                raise Violation('split_invariance', f'dispatching {lab}: violation {ra} without the split, {rb} with it')
            if ra is not None:
                continue
            a.splits_left, a.steps, a.instant_steps = b.splits_left, b.steps, b.instant_steps
            for m in a.monitors + b.monitors:
                if isinstance(m, SplitInv):
                    m.snap, m.xops, m.pos = None, [], None
            if a.digest() != b.digest():
                da, db = canon.dump(a), canon.dump(b)
                i = next((k for k, (x, y) in enumerate(zip(da, db)) if x != y), min(len(da), len(db)))
                raise Violation('split_invariance', f'run split at t={w.env.now}: after dispatching {lab} the state differs from the '
                                                    f'unsplit run; first difference near ...{da[max(0, i - 6):i + 3]} vs ...{db[max(0, i - 6):i + 3]}')
        w.facts.append('split_point_compared')
