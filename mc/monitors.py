'''Invariant monitors for line worlds (DESIGN.md section 5).  Monitors live inside
the world: their state is pickled and digested with it.'''
from collections import Counter

import numpy as np

from . import Violation, HarnessError
from .line import Monitor, leaves, leaf_parts, INF
from .explorer import snapshot, restore
from .linejobs import monitor

from simprocesd.model.factory_floor import (Batch, PartHandler, PartFlowController, DecisionGate,
                                            PartBatcher, PartProcessor, Source, Buffer, Sink)
from simprocesd.model.factory_floor.group import GroupPath, GroupInput, GroupOutput


def held_items(dev):
    '''Part objects (possibly batches) physically inside a device.'''
    out = []
    if isinstance(dev, PartHandler):
        if dev._part is not None:
            out.append(dev._part)
        if dev._output is not None:
            out.append(dev._output)
    if isinstance(dev, Buffer):
        out.extend(p for _, p in dev._buffer)
    if isinstance(dev, PartBatcher) and dev._in_progress_batch is not None:
        out.append(dev._in_progress_batch)
    return out


@monitor('census')
class Census(Monitor):
    '''C02: every generated part is in exactly one place; single slots; budget.'''
    prop = 'C02'

    def __init__(self):
        self.budget = {}

    def attach(self, w):
        for d in w.spec['devices']:
            if d['kind'] == 'source':
                b = d.get('budget')
                self.budget[d['name']] = INF if b is None else b

    def start(self, w):
        self.check(w)

    def after(self, w, label, ev):
        for t in w.hub.tlog:
            if t[0] == 'adjust':
                src = w.dev[t[1]]
                # documented: the remaining count is never decreased below 0
                supplied = self.supplied(src)
                self.budget[t[1]] = max(self.budget[t[1]] + t[2], supplied)
        self.check(w)

    @staticmethod
    def supplied(src):
        return len(src._part_generator.items) - (1 if src._output is not None else 0)

    def check(self, w):
        generated = Counter()
        for s in w.sources():
            generated.update(s._part_generator.generated)
        inside = Counter()
        where = {}
        for dev in w.flow_devices():
            if isinstance(dev, Sink):
                if dev._part is not None and dev._output is not None:
                    raise Violation('single_slot', f'sink {dev.name} holds two parts')
                continue
            items = held_items(dev)
            for it in items:
                for lid in leaves(it):
                    inside[lid] += 1
                    where.setdefault(lid, []).append(dev.name)
            if type(dev) in _SINGLE_SLOT and dev._part is not None and dev._output is not None:
                raise Violation('single_slot', f'{dev.name} holds a part in both slots')
            if isinstance(dev, Source) and dev._part is not None:
                raise Violation('single_slot', f'source {dev.name} has an input part')
        delivered = Counter()
        for sink, ids in w.hub.delivered.items():
            delivered.update(ids)
            for lid in ids:
                where.setdefault(lid, []).append('sink:' + sink)
        lost = Counter()
        lost_ids_cb = Counter()
        for dev, pid, lv in w.hub.lost:
            lost.update(lv)
            lost_ids_cb[(dev, pid)] += 1
            for lid in lv:
                where.setdefault(lid, []).append('lost:' + dev)
        # failure log must report the same losses, once each
        lost_ids_log = Counter()
        for name, recs in w.env.simulation_data.get('device_failure', {}).items():
            for r in recs:
                if r[1] is not None:
                    lost_ids_log[(name, r[1])] += 1
        if lost_ids_log != lost_ids_cb:
            raise Violation('lost_report', f'failure log {dict(lost_ids_log)} vs shutdown callbacks '
                                           f'{dict(lost_ids_cb)}')
        total = inside + delivered + lost
        if total != generated or any(c != 1 for c in total.values()):
            bad = {}
            for lid in set(total) | set(generated):
                if total.get(lid, 0) != 1 or generated.get(lid, 0) != 1:
                    bad[lid] = where.get(lid, [])
            raise Violation('conservation', f'parts not in exactly one place: {bad} '
                                            f'(generated={sum(generated.values())} inside={sum(inside.values())} '
                                            f'delivered={sum(delivered.values())} lost={sum(lost.values())})')
        for s in w.sources():
            sup = self.supplied(s)
            if sup != s.produced_parts:
                raise Violation('budget', f'{s.name}: produced_parts={s.produced_parts} but {sup} parts left it')
            if sup > self.budget[s.name]:
                raise Violation('budget', f'{s.name} supplied {sup} parts with a budget of {self.budget[s.name]}')
        if delivered:
            w.facts.append('delivered')


_SINGLE_SLOT = ()


def _init_types():
    global _SINGLE_SLOT
    from .line import HProcessor
    _SINGLE_SLOT = (PartHandler, PartProcessor, HProcessor, Source)


_init_types()
