'''Job runner, determinism gate, known-finding filter, replay artefacts, evidence.'''
import hashlib
import json
import multiprocessing as mp
import os
import re
import sys
import time
import traceback

from . import Violation, HarnessError, VERIF, REPO

# VERIF_OUT_DIR redirects evidence and replay artefacts (used when a check is pointed at a mutant tree, so that
# the committed evidence of the real tree is never overwritten by such a run)
_OUT = os.environ.get('VERIF_OUT_DIR') or VERIF
EVID_DIR = os.path.join(_OUT, 'evidence')
PARTIAL = False
REPLAY_DIR = os.path.join(_OUT, 'replays')
KNOWN_FILE = os.path.join(VERIF, 'known_findings.json')

# world kinds register: kind -> (run_job(job, seed) -> dict, replay(job, path) -> dict)
KINDS = {}


def register(kind, run_job, replay):
    KINDS[kind] = (run_job, replay)


def classify_exception(e):
    '''("exception", detail) for an exception raised inside the library; an exception raised in harness code is
    re-raised as HarnessError (never a verdict).'''
    from . import library_origin
    where = library_origin(e)
    if where is None:
        raise HarnessError(f'{type(e).__name__}: {str(e)[:300]} raised in harness code: '
                           + ''.join(traceback.format_tb(e.__traceback__)[-2:])[:600])
    return 'exception', f'{type(e).__name__} at {where}: {str(e)[:160]}'


def _limit_memory():
    '''A job must not take the machine down when the library under test allocates without bound (an endless loop inside
    one event): cap the address space of the worker; the MemoryError then surfaces inside the library code.'''
    try:
        import resource
        cap = int(os.environ.get('VERIF_MEM_GB', '6')) * (1 << 30)
        soft, hard = resource.getrlimit(resource.RLIMIT_AS)
        if soft == resource.RLIM_INFINITY or soft > cap:
            resource.setrlimit(resource.RLIMIT_AS, (cap, hard))
    except Exception:
        pass


def _worker(args):
    job, seed = args
    sys.stdout = open(os.devnull, 'w')
    _limit_memory()
    t0 = time.time()
    try:
        out = KINDS[job['kind']][0](job, seed)
        out['ok'] = True
    except HarnessError as e:
        out = {'ok': False, 'harness_error': f'{job["name"]}: {e}'}
    except Exception as e:
        out = {'ok': False, 'harness_error': f'{job["name"]}: {type(e).__name__}: {e}\n'
                                             + ''.join(traceback.format_tb(e.__traceback__)[-6:])}
    out['job'] = job['name']
    out['wall_s'] = round(time.time() - t0, 3)
    if os.environ.get('VERIF_COVER_DIR'):
        from . import cover
        cover.dump()
    return out


def run_jobs(jobs, seed=0, nproc=None):
    nproc = nproc or min(16, os.cpu_count() or 1)
    # biggest first (more injected operations, longer horizon) so that the pool stays balanced
    def weight(j):
        sp = j.get('spec', {})
        return -(sp.get('K', 0) * 1000 + len(sp.get('ops', [])) * sp.get('horizon', 1)) if sp else 0
    order = sorted(range(len(jobs)), key=lambda i: (weight(jobs[i]), i))
    jobs = [jobs[i] for i in order]
    here = [(j, seed) for j in jobs if j.get('main_process')]      # jobs that create their own process pools
    args = [(j, seed) for j in jobs if not j.get('main_process')]
    outs = []
    real = sys.stdout
    if nproc <= 1 or len(args) <= 1:
        try:
            outs = [_worker(a) for a in args]
        finally:
            sys.stdout = real
    elif os.environ.get('VERIF_FAST_FAIL'):
        # detection sweeps only (tools/mutsweep.py): stop as soon as one job has found a violation
        ctx = mp.get_context('fork')
        with ctx.Pool(nproc) as pool:
            for o in pool.imap_unordered(_worker, args, chunksize=1):
                outs.append(o)
                if o.get('violations') or not o.get('ok'):
                    pool.terminate()
                    break
        return outs
    else:
        ctx = mp.get_context('fork')
        with ctx.Pool(nproc) as pool:
            outs = list(pool.imap(_worker, args, chunksize=1))
    try:
        outs += [_worker(a) for a in here]
    finally:
        sys.stdout = real
    return outs


# ----------------------------------------------------------------------------- known findings

def load_known():
    if not os.path.exists(KNOWN_FILE):
        return {'findings': [], 'fixed': []}
    with open(KNOWN_FILE) as f:
        return json.load(f)


def match_known(prop, v, known):
    '''A violation is a known finding only if property, clause and every listed
    pattern match; a different violation of the same property is still reported.'''
    for k in known.get('findings', []):
        if k['property'] != prop or k['clause'] != v['clause']:
            continue
        if 'detail_regex' in k and not re.search(k['detail_regex'], v['detail']):
            continue
        if 'scenario_regex' in k and not re.search(k['scenario_regex'], v['scenario']):
            continue
        if 'path_regex' in k and not re.search(k['path_regex'], json.dumps(v['path'])):
            continue
        return k
    return None


# ----------------------------------------------------------------------------- main driver

def replay(job, path, lenient=False):
    '''lenient: for committed regression artefacts (line worlds): tolerate events that a later, benign change of the
    library added at or removed from an instant; never used by the determinism gate.'''
    f = KINDS[job['kind']][1]
    if lenient and job['kind'] == 'line':
        return f(job, path, lenient=True)
    return f(job, path)


def gate(job, v):
    '''Determinism gate: the violation must reproduce twice through the real
    run()/simulate() (E2) with the same clause at the same step.'''
    import gc
    from .explorer import _Quiet
    obs = []
    with _Quiet():
        for _ in range(2):
            r = replay(job, v['path'])
            obs.append((r.get('clause'), r.get('step')))
        r = None
        gc.collect()        # library objects print from __del__ (ReservedResources): keep that out of the verdict lines
    want = (v['clause'], len(v['path']))
    ok = all(o[0] == want[0] for o in obs) and obs[0] == obs[1]
    return ok, obs


def write_replay(prop, job, v, subdir=''):
    d = os.path.join(REPLAY_DIR, subdir) if subdir else REPLAY_DIR
    os.makedirs(d, exist_ok=True)
    body = {'property': prop, 'clause': v['clause'], 'detail': v['detail'], 'job': job,
            'path': v['path']}
    h = hashlib.blake2b(json.dumps(body, sort_keys=True).encode(), digest_size=6).hexdigest()
    p = os.path.join(d, f'{prop}-{h}.json')
    with open(p, 'w') as f:
        json.dump(body, f, indent=1)
    return p


def finish(prop, tier, seed, jobs, outs, t0, level_rule, nontrivial, extra=None, assumptions=None,
           out=sys.stdout):
    '''Classify violations, write evidence, print verdict lines.  Returns exit code.'''
    known = load_known()
    byname = {j['name']: j for j in jobs}
    harness_errors = [o['harness_error'] for o in outs if not o.get('ok')]
    tot_states = tot_trans = tot_valid = 0
    rows = []
    samples = []
    capped = []
    facts = {}
    n_nontrivial = 0
    new_viol = []
    known_hits = {}
    for o in outs:
        if not o.get('ok'):
            continue
        r = o['result']
        tot_states += r['states']
        tot_trans += r['transitions']
        tot_valid += o.get('validated', 0)
        rows.append(r)
        if r.get('capped'):
            capped.append(f'{r["scenario"]}: {r["capped"]}')
        for k, n in r.get('facts', {}).items():
            facts[k] = facts.get(k, 0) + n
        if nontrivial(r):
            n_nontrivial += 1
        if o.get('sample') is not None and len(samples) < 6:
            samples.append({'scenario': r['scenario'], 'path': o['sample']})
        for v in o.get('violations', []):
            k = match_known(prop, v, known)
            if k is not None:
                known_hits.setdefault(k['id'], [k, 0, v])
                known_hits[k['id']][1] += 1
            else:
                new_viol.append((o['job'], v))
    code = 0
    lines = []
    for kid, (k, n, v) in sorted(known_hits.items()):
        lines.append(f'KNOWN-FINDING: property={prop} {k["what"]} [{kid}; {n} occurrence(s) this run]')
    # distinct new violations: one report per (scenario, clause), shortest path first
    reported = {}
    for jn, v in sorted(new_viol, key=lambda x: len(x[1]['path'])):
        key = (jn, v['clause'])
        if key in reported:
            continue
        reported[key] = v
    n_reported = 0
    for (jn, clause), v in reported.items():
        if n_reported >= 12:
            break
        job = byname[jn]
        try:
            ok, obs = gate(job, v)
        except HarnessError as e:
            ok, obs = False, str(e)
        if not ok:
            harness_errors.append(f'{jn}: violation {clause!r} ({v["detail"][:100]}) did not reproduce through '
                                  f'the real run loop: {obs}')
            continue
        p = write_replay(prop, job, v)
        lines.append(f'VIOLATION property={prop} replay={p}')
        lines.append(f'  scenario={jn} clause={clause} steps={len(v["path"])} detail={v["detail"][:300]}')
        code = 1
        n_reported += 1
    if harness_errors:
        for h in harness_errors[:10]:
            lines.append('HARNESS-ERROR: ' + h[:1500])
        code = 2 if code == 0 else code
    cov = {
        'states': tot_states, 'transitions': tot_trans,
        'traces_validated_against_impl': tot_valid,
        'samples': samples or [{'note': 'no terminal path recorded'}],
        'evaluations': len(outs),
        'distinct_nontrivial': n_nontrivial,
        'rule': level_rule,
        'exhaustive': not capped and not harness_errors,
        'caps_hit': capped,
        'facts': facts,
        'scenarios': rows if len(rows) <= 60 else
        sorted(rows, key=lambda r: -r['states'])[:40] + [{'note': f'{len(rows) - 40} smaller scenarios omitted'}],
        'known_findings_seen': sorted(known_hits),
        'new_violations': len(new_viol),
    }
    if extra:
        cov.update(extra)
    ev = {'property_id': prop, 'tier': tier, 'seed': seed, 'level': 'model_checking', 'coverage': cov,
          'assumptions': assumptions or [], 'wall_s': round(time.time() - t0, 2),
          'violations': len(reported)}
    evdir = os.path.join(_OUT, 'sweep', 'partial') if PARTIAL else EVID_DIR
    os.makedirs(evdir, exist_ok=True)
    with open(os.path.join(evdir, f'{prop}.json'), 'w') as f:
        json.dump(ev, f, indent=1, default=str)
    if not PARTIAL:
        # one-line-per-tier history (the main file only holds the most recent run)
        os.makedirs(os.path.join(_OUT, 'sweep', 'tiers'), exist_ok=True)
        brief = dict(ev, coverage={k: v for k, v in cov.items() if k not in ('scenarios', 'samples')})
        with open(os.path.join(_OUT, 'sweep', 'tiers', f'{prop}.{tier}.json'), 'w') as f:
            json.dump(brief, f, indent=1, default=str)
    for ln in lines:
        print(ln, file=out)
    print(f'{prop} {tier}: scenarios={len(outs)} states={tot_states} transitions={tot_trans} '
          f'e2_validated={tot_valid} nontrivial={n_nontrivial} new_violations={len(reported)} '
          f'known={len(known_hits)} capped={len(capped)} wall={ev["wall_s"]}s exit={code}', file=out)
    return code
