'''Component worlds over a REAL ResourceManager (C09: pool arithmetic and atomicity,
C10: waiting requests), each in lock-step with a plain-Python reference model.'''
import copy

from . import Violation, HarnessError
from . import canon
from .comp import CompWorld, world

from simprocesd.model import ResourceManager
from simprocesd.model.simulation import Environment, EventType


def _mk_rm(pools):
    rm = ResourceManager()
    for r, n in pools:
        rm.add_resources(r, n)
    env = Environment(resource_manager=rm)
    rm.initialize(env)
    return rm, env


def _snapshot(rm, reservations):
    '''Observable state of the pool and of every reservation object (public getters only).'''
    names = sorted(rm._resources)
    return (tuple((n, rm.get_resource_usage(n), rm.get_resource_capacity(n)) for n in names),
            tuple(tuple(sorted(r.reserved_resources.items())) for r in reservations))


def _check_records(env, rm, before, after, desc):
    b = {n: (u, c) for n, u, c in before[0]}
    a = {n: (u, c) for n, u, c in after[0]}
    recs = env.simulation_data.get('resource_update', {})
    for n, st in a.items():
        got = [tuple(x) for x in recs.get(n, [])]
        if st != b.get(n):
            if not got:
                raise Violation('resource_record', f'{desc} changed {n} from {b.get(n)} to {st} (usage, capacity) without a '
                                                   f'resource_update record')
        if got and (got[-1][1:] != (st[0], st[1]) or got[-1][0] > env.now):
            raise Violation('resource_record', f'after {desc}: last resource_update of {n} is {got[-1]}, pool at t={env.now} is '
                                               f'{st} (usage, capacity)')


# ============================================================================ C09

@world('rm')
class RMWorld(CompWorld):
    '''Operations:
      ('add', name, amount)            add_resources
      ('reserve', i)                   reserve_resources(REQUESTS[i])      (at most `max_res` live objects)
      ('release', k, j)                reservation k .release(RELEASES[j]) (None = everything)
      ('merge', k, l)                  reservation k .merge(reservation l), k != l
      ('resys',)                       the manager is handed to a new System(resource_manager=rm), which is started
                                       (simulate(0)): the documented way to share one manager between models
    '''
    _canon_skip = CompWorld._canon_skip + ('adds', 'requests', 'releases', 'max_res')

    def __init__(self, params):
        super().__init__(params)
        self.adds = [tuple(x) for x in params['adds']]
        self.requests = params['requests']
        self.releases = params['releases']
        self.max_res = params.get('max_res', 3)
        pools = params.get('pools', [['a', 2], ['b', 1]])
        self.rm, self.env = _mk_rm(pools)
        self.res = []                   # real ReservedResources objects
        self.pool = {r: [0, n] for r, n in pools}     # reference: name -> [in use, capacity]
        self.hold = []                  # reference: holdings per reservation
        self.reduced = set()            # resources whose capacity was explicitly reduced below usage
        self.env.simulation_data.clear()
        self.check('init')

    def menu(self):
        out = [('add', i) for i in range(len(self.adds))]
        if len(self.res) < self.max_res:
            out += [('reserve', i) for i in range(len(self.requests))]
        for k in range(len(self.res)):
            out += [('release', k, j) for j in range(len(self.releases))]
            out += [('merge', k, l) for l in range(len(self.res)) if l != k]
        if self.params.get('resys', True):
            out.append(('resys',))
        return self.restrict_first(out)

    # reference semantics ---------------------------------------------------------------
    def ref_fits(self, req):
        for r, n in req.items():
            if n <= 0:
                continue
            use, cap = self.pool.get(r, (0, 0))
            if cap - use < n:
                return False
        return True

    def apply_op(self, label):
        self.budget -= 1
        k = label[0]
        rm = self.rm
        before = _snapshot(rm, self.res)
        raised = None
        result = None
        try:
            if k == 'add':
                name, amt = self.adds[label[1]]
                rm.add_resources(name, amt)
            elif k == 'reserve':
                req = copy.deepcopy(self.requests[label[1]])
                result = rm.reserve_resources(req)
                if req != self.requests[label[1]]:
                    raise Violation('request_mutated', f'reserve_resources changed the caller\'s request {req}')
                for k_ in list(req):
                    req[k_] = 77          # the caller re-uses its dictionary: the reservation must not alias it
                req['later'] = 1
            elif k == 'release':
                spec = copy.deepcopy(self.releases[label[2]])
                self.res[label[1]].release(spec)
            elif k == 'merge':
                self.res[label[1]].merge(self.res[label[2]])
            elif k == 'resys':
                self.new_system()
            else:
                raise HarnessError(f'unknown op {label}')
        except (ValueError, KeyError, AssertionError, TypeError) as e:
            raised = e
        # ---- expected outcome
        desc = self.describe(label)
        if raised is not None:
            self.facts.append('raised:' + k)
            after = _snapshot(rm, self.res)
            if after != before:
                raise Violation('error_not_atomic', f'{desc} raised {type(raised).__name__} but changed the state: '
                                                    f'{before} -> {after}')
            must_succeed = self.ref_must_not_raise(label)
            if must_succeed:
                raise Violation('unexpected_error', f'{desc} raised {type(raised).__name__}: {raised}')
        else:
            self.ref_apply(label, result, desc)
        # drain the availability checks scheduled by the operation (no waiters in this world)
        n = 0
        while self.env._events:
            self.env.step()
            n += 1
            if n > 50:
                raise HarnessError('check events do not drain')
        if self.params.get('records'):
            # C15 (resource clause): whatever changed is recorded, stamped now, and the last record equals the pool
            _check_records(self.env, rm, before, _snapshot(rm, self.res), desc)
        self.env.simulation_data.clear()
        self.check(desc)

    def new_system(self):
        from simprocesd.model import System
        from simprocesd.model.factory_floor.asset import Asset
        saved = (Asset._id_counter, System._instance)
        try:
            s = System(resource_manager=self.rm)
            s.simulate(0, print_summary=False)
        finally:
            Asset._id_counter, System._instance = saved
        if self.rm._env is not s._env:
            raise Violation('resys', 'after System(resource_manager=rm).simulate() the manager does not use that system\'s environment')
        self.env = s._env
        self.system = s
        self.facts.append('resys')

    def describe(self, label):
        k = label[0]
        if k == 'resys':
            return 'System(resource_manager=rm).simulate(0)'
        if k == 'add':
            return f'add_resources{self.adds[label[1]]}'
        if k == 'reserve':
            return f'reserve_resources({self.requests[label[1]]})'
        if k == 'release':
            return f'reservation#{label[1]}{self.hold[label[1]]}.release({self.releases[label[2]]})'
        return f'reservation#{label[1]}.merge(#{label[2]})'

    def ref_must_not_raise(self, label):
        '''True when the reference says the operation is valid (so an exception is itself a violation).'''
        k = label[0]
        if k == 'add':
            name, amt = self.adds[label[1]]
            return self.pool.get(name, [0, 0])[1] + amt >= 0
        if k == 'reserve':
            return all(n >= 0 for n in self.requests[label[1]].values())
        if k == 'release':
            spec = self.releases[label[2]]
            if spec is None:
                return True
            h = self.hold[label[1]]
            for r, n in spec.items():
                if n < 0 or (n > 0 and h.get(r, 0) < n):
                    return False
                if n == 0 and r not in h:
                    return False      # leniency: releasing 0 of something not held may raise or be a no-op
            return True
        return True

    def ref_apply(self, label, result, desc):
        k = label[0]
        if k == 'add':
            name, amt = self.adds[label[1]]
            cur = self.pool.get(name, [0, 0])
            if cur[1] + amt < 0:
                raise Violation('negative_capacity', f'{desc} accepted: capacity would be {cur[1] + amt}')
            if amt != 0:
                self.pool.setdefault(name, [0, 0])[1] += amt
                if self.pool[name][0] > self.pool[name][1]:
                    self.reduced.add(name)
                    self.facts.append('reduced_below_usage')
        elif k == 'reserve':
            req = self.requests[label[1]]
            neg = any(n < 0 for n in req.values())
            if neg:
                if result is not None:
                    raise Violation('negative_request', f'{desc} succeeded with {result.reserved_resources}')
                return          # refused without raising: acceptable, nothing must have changed (checked below)
            fits = self.ref_fits(req)
            if fits != (result is not None):
                raise Violation('reserve_result', f'{desc}: reference says fits={fits}, implementation returned '
                                                  f'{"a reservation" if result is not None else "None"} (pool {self.pool})')
            if fits:
                got = {r: n for r, n in req.items() if n > 0}
                for r, n in got.items():
                    self.pool[r][0] += n
                self.res.append(result)
                self.hold.append(got)
                self.facts.append('reserved')
            else:
                self.facts.append('refused')
        elif k == 'release':
            spec = self.releases[label[2]]
            h = self.hold[label[1]]
            if spec is None:
                spec = dict(h)
            for r, n in spec.items():
                if n < 0 or (n > 0 and h.get(r, 0) < n):
                    raise Violation('bad_release_accepted', f'{desc} did not raise')
            for r, n in spec.items():
                if n > 0:
                    h[r] -= n
                    self.pool[r][0] -= n
                    if h[r] == 0:
                        del h[r]
            self.facts.append('released')
        elif k == 'merge':
            a, b = self.hold[label[1]], self.hold[label[2]]
            for r, n in b.items():
                a[r] = a.get(r, 0) + n
            b.clear()
            self.facts.append('merged')

    def check(self, desc):
        rm = self.rm
        names = set(rm._resources) | set(self.pool)
        for r in sorted(names):
            use, cap = rm.get_resource_usage(r), rm.get_resource_capacity(r)
            ruse, rcap = self.pool.get(r, [0, 0])
            if (use, cap) != (ruse, rcap):
                raise Violation('pool', f'after {desc}: {r} usage/capacity {(use, cap)} vs reference {(ruse, rcap)}')
            if cap < 0:
                raise Violation('negative_capacity', f'after {desc}: capacity of {r} is {cap}')
            if use < 0:
                raise Violation('negative_usage', f'after {desc}: usage of {r} is {use}')
            held = sum(x.reserved_resources.get(r, 0) for x in self.res)
            if use != held:
                raise Violation('usage_vs_holdings', f'after {desc}: usage of {r} is {use} but outstanding '
                                                     f'reservations hold {held}')
            if use > cap and r not in self.reduced:
                raise Violation('over_capacity', f'after {desc}: usage {use} > capacity {cap} of {r} without a reduction')
            if use <= cap:
                self.reduced.discard(r)
        for i, x in enumerate(self.res):
            got = x.reserved_resources
            if got != self.hold[i]:
                raise Violation('holdings', f'after {desc}: reservation#{i} holds {got}, reference {self.hold[i]}')


# ============================================================================ C10

class ReleaseAction:
    '''Event action: full release of reservation k (scheduled by 'late_release' to fall on the very last instant of the
    next run, when the run's own end marker is queued for the same time).'''

    def __init__(self, w, k):
        self.w = w
        self.k = k
        self.__name__ = 'late_release'

    def __call__(self):
        rr, held, _ = self.w.res[self.k]
        rr.release()                         # (the reference releases when it replays the run, see 'advance')
        self.w.facts.append('released_at_end_of_run')


class WaitCallback:
    def __init__(self, w, cid, kind, req_idx):
        self.w = w
        self.cid = cid
        self.kind = kind
        self.req_idx = req_idx

    def __call__(self, mgr, req):
        self.w.called(self, mgr, req)

    def fire(self, mgr, req):
        '''The same as a bound method (kind 'method': the waiting list then holds the only reference to the object).'''
        self.w.called(self, mgr, req)


def _cid_of(cb):
    '''Identity of a registered callback however the library keeps it (the object, a bound method of it, a weak
    reference to either); None when it cannot be told any more.'''
    import weakref
    if isinstance(cb, weakref.ReferenceType):
        cb = cb()
    o = getattr(cb, '__self__', cb)
    return getattr(o, 'cid', None)


@world('rmwait')
class RMWaitWorld(CompWorld):
    '''Operations:
      ('wait', i, kind)   reserve_resources_with_callback(REQUESTS[i], cb); kind in noop / take / take+again
      ('reserve', i)      direct reserve_resources(REQUESTS[i])
      ('release', k)      full release of reservation k
      ('add', name, amt)  add_resources
      ('drain',)          execute every event of the current instant (real Environment.step)
      ('advance',)        real Environment.run(1): the clock advances by one unit
    '''
    _canon_skip = CompWorld._canon_skip + ('requests', 'adds', 'kinds', 'log', 'max_wait', 'max_res', 'late_registered', 'ref_ncb',
                                           'prev_snap')

    def __init__(self, params):
        super().__init__(params)
        self.requests = params['requests']
        self.adds = [tuple(x) for x in params['adds']]
        self.kinds = params.get('kinds', ['noop', 'take', 'again'])
        self.max_wait = params.get('max_wait', 3)
        self.max_res = params.get('max_res', 4)
        pools = params.get('pools', [['a', 1], ['b', 1]])
        self.rm, self.env = _mk_rm(pools)
        self.env.simulation_data.clear()
        self.res = []                  # reservation objects (direct and taken inside callbacks), with owner tag
        self.pool = {r: [0, n] for r, n in pools}
        self.waiting = []              # reference: [cid, req index, kind] in registration order
        self.shared = {}               # request index -> the one callback object shared by 'shared' registrations
        self.ncb = 0
        self.log = []
        self.dirty = False             # something happened since the last drain
        self.late_pending = False      # a 'late_release' event is queued
        self.prev_snap = _snapshot(self.rm, [])
        # exploration may start from a non-initial state: a fixed prefix of operations, not counted in the depth
        for lab in params.get('prefix', []):
            self.budget += 1
            self.nops -= 1
            self.apply(tuple(lab))
        self.trail = []          # operations of the fixed start state are not part of the recipe

    def menu(self):
        out = []
        nlive = len(self.waiting)
        if nlive < self.max_wait and self.ncb < self.params.get('max_callbacks', 5):
            for i in range(len(self.requests)):
                for k in self.kinds:
                    out.append(('wait', i, k))
        if len(self.res) < self.max_res:
            out += [('reserve', i) for i in range(len(self.requests))]
        out += [('release', k) for k in range(len(self.res)) if self.res[k][1]]
        if self.params.get('late_release') and not self.late_pending:
            out += [('late_release', k) for k in range(len(self.res)) if self.res[k][1]]
        out += [('add', i) for i in range(len(self.adds))]
        if self.dirty:
            out.append(('drain',))
        out.append(('advance',))
        return self.restrict_first(out)

    def fits(self, req):
        for r, n in req.items():
            if n > 0 and self.pool.get(r, [0, 0])[1] - self.pool.get(r, [0, 0])[0] < n:
                return False
        return True

    def take(self, req):
        for r, n in req.items():
            if n > 0:
                self.pool[r][0] += n

    # called by the REAL resource manager
    def called(self, cb, mgr, req):
        want = self.requests[cb.req_idx]
        if mgr is not self.rm:
            raise Violation('callback_args', 'callback not invoked with the resource manager')
        if req != want:
            raise Violation('callback_args', f'callback invoked with request {req}, registered {want}')
        if req is want:
            raise Violation('callback_args', 'callback received the caller\'s dictionary, not a copy')
        avail = all(mgr.get_resource_capacity(r) - mgr.get_resource_usage(r) >= n for r, n in want.items() if n > 0)
        self.log.append((cb.cid, avail))
        if cb.kind == 'give':
            mgr.add_resources('a', 1)       # a capacity change issued from INSIDE a callback
        if cb.kind in ('take', 'again'):
            rr = mgr.reserve_resources(copy.deepcopy(want))
            if rr is not None:
                self.res.append([rr, {r_: n_ for r_, n_ in want.items() if n_ > 0}, 'cb'])
            if cb.kind == 'again' and rr is not None:
                pass
            if cb.kind == 'again':
                self.ncb += 1
                nc = WaitCallback(self, self.ncb, 'noop', cb.req_idx)
                self.late_registered.append([nc.cid, cb.req_idx, 'noop'])
                mgr.reserve_resources_with_callback(want, nc)

    late_registered = ()

    def ref_check(self):
        '''In-order scans that re-evaluate feasibility after every callback; a change made from inside a callback
        (capacity added) is itself followed by a check at the same instant, so scans repeat until nothing is served.'''
        exp = []
        again = True
        while again:
            again = False
            i = 0
            while i < len(self.waiting):
                cid, ri, kind = self.waiting[i]
                req = self.requests[ri]
                if self.fits(req):
                    exp.append((cid, True))
                    self.waiting.pop(i)
                    if kind in ('take', 'again'):
                        self.take(req)
                    if kind == 'give':
                        self.pool['a'][1] += 1
                        again = True
                    if kind == 'again':
                        self.ref_ncb += 1
                        self.waiting.append([self.ref_ncb, ri, 'noop'])
                else:
                    i += 1
        return exp

    def apply_op(self, label):
        self.budget -= 1
        k = label[0]
        rm, env = self.rm, self.env
        self.log = []
        self.late_registered = []
        if k == 'wait' and label[2] == 'shared':
            # ONE callback object used for every registration of that request (equal request, same callable)
            cb = self.shared.get(label[1])
            if cb is None:
                cb = self.shared[label[1]] = WaitCallback(self, -(label[1] + 1), 'noop', label[1])
            self.waiting.append([cb.cid, label[1], 'noop'])
            mine = copy.deepcopy(self.requests[label[1]])
            rm.reserve_resources_with_callback(mine, cb)
            self.dirty = True
            self.facts.append('registered')
        elif k == 'wait':
            self.ncb += 1
            cb = WaitCallback(self, self.ncb, 'noop' if label[2] == 'method' else label[2], label[1])
            self.waiting.append([cb.cid, label[1], cb.kind])
            mine = copy.deepcopy(self.requests[label[1]])
            # kind 'method': a bound method of an object created on the spot, referenced by nothing else
            rm.reserve_resources_with_callback(mine, cb.fire if label[2] == 'method' else cb)
            del cb
            for k_ in list(mine):
                mine[k_] = 77             # the caller re-uses its dictionary while the request is waiting
            self.dirty = True
            self.facts.append('registered')
        elif k == 'reserve':
            req = self.requests[label[1]]
            rr = rm.reserve_resources(copy.deepcopy(req))
            f = self.fits(req)
            if f != (rr is not None):
                raise Violation('reserve_result', f'reserve_resources({req}) -> {rr}, reference fits={f}')
            if rr is not None:
                self.take(req)
                self.res.append([rr, {r_: n_ for r_, n_ in req.items() if n_ > 0}, 'direct'])
        elif k == 'late_release':
            # the release happens from an event due exactly when the next run(1) ends
            env.schedule_event(env.now + 1, 5, ReleaseAction(self, label[1]), EventType.OTHER_LOW_PRIORITY)
            self.late_pending = True
        elif k == 'release':
            rr, held, _ = self.res[label[1]]
            rr.release()
            for r, n in held.items():
                self.pool[r][0] -= n
            held.clear()
            self.dirty = True
            self.facts.append('released')
        elif k == 'add':
            name, amt = self.adds[label[1]]
            try:
                rm.add_resources(name, amt)
                self.pool.setdefault(name, [0, 0])[1] += amt
                self.dirty = True
                self.facts.append('capacity_change')
            except ValueError:
                if self.pool.get(name, [0, 0])[1] + amt >= 0:
                    raise Violation('unexpected_error', f'add_resources({name},{amt}) raised')
        elif k in ('drain', 'advance'):
            t0 = env.now
            if k == 'drain':
                n = 0
                while env._events and env._events[0].time == env.now:
                    env.step()
                    n += 1
                    if n > 200:
                        raise Violation('termination', 'availability checks do not reach a fixpoint within one instant')
            else:
                late = [e.action.k for e in env._events if isinstance(e.action, ReleaseAction)]
                env.run(1)
                self.late_pending = False
                if env.now != t0 + 1:
                    raise Violation('clock', f'run(1) from {t0} ended at {env.now}')
                self.facts.append('clock_advanced')
            self.ref_ncb = self.ncb - len(self.late_registered)
            exp = self.ref_check()
            if k == 'advance' and late:
                # the reference replays the run in order: checks of the first instant, then the release on the last
                # instant and the check that follows it
                for k_ in late:
                    held = self.res[k_][1]
                    for r, n in held.items():
                        self.pool[r][0] -= n
                    held.clear()
                exp += self.ref_check()
            if self.log != exp:
                raise Violation('callbacks', f'at t={t0}: callbacks invoked (id, fitted at that moment) {self.log}, '
                                             f'reference (registration order, first check at which it fits) {exp}; '
                                             f'pool {self.pool}, still waiting {self.waiting}')
            if exp:
                self.facts.append('served')
            if len(exp) >= 2:
                self.facts.append('served_several_in_order')
            self.dirty = False
        else:
            raise HarnessError(f'unknown op {label}')
        if k not in ('drain', 'advance') and self.log:
            raise Violation('callbacks', f'callback invoked synchronously inside {label}: {self.log}')
        if self.params.get('records'):
            snap = _snapshot(rm, [])
            _check_records(self.env, rm, self.prev_snap, snap, str(label))
            self.prev_snap = snap
        self.env.simulation_data.clear()
        self.compare()
        if k == 'advance':
            for cid, ri, kind in self.waiting:
                if self.fits(self.requests[ri]):
                    raise Violation('left_waiting', f'clock advanced to {env.now} with feasible request '
                                                    f'{self.requests[ri]} (callback {cid}) still waiting')

    def compare(self):
        rm = self.rm
        for r in sorted(set(rm._resources) | set(self.pool)):
            got = (rm.get_resource_usage(r), rm.get_resource_capacity(r))
            if got != tuple(self.pool.get(r, [0, 0])):
                raise Violation('pool', f'{r}: {got} vs reference {self.pool.get(r)}')
        real = [(_cid_of(cb), req) for req, cb in rm._waiting_requests]
        want = [(cid, self.requests[ri]) for cid, ri, kind in self.waiting]
        if real != want:
            raise Violation('waiting_list', f'registered requests {real} vs reference {want}')
