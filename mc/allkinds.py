from . import linejobs, monitors  # noqa
from . import comp, envworld, rmworld, maintworld, lifeworld, repro, compchecks  # noqa
