from . import linejobs, monitors  # noqa
