from . import linejobs, monitors  # noqa
from . import comp, envworld, compchecks  # noqa
