'''Component world over a REAL simprocesd Environment (C01, C07).

Operations (label tuples):
  ('sched', dt, asset, prio, kind, arg)  env.schedule_event(now+dt, asset, action, prio)
        kind: 'log'      action only logs
              'follow'   action schedules a 'log' event for the same asset at now+arg (from INSIDE the action)
              'pause' / 'unpause' / 'cancel'   action calls env.<kind>_matching_events(arg) from inside
              'past'     action tries to schedule before now (must raise ValueError, change nothing)
              'boom'     action raises; the caller of step() catches the exception and carries on (such an event is
                         only dispatched by a plain step: no run is opened while one is pending)
  ('pause', a) ('unpause', a) ('cancel', a)   the public calls, from outside
  ('past',)                                   schedule_event(now-0.5, ...) from outside: ValueError, nothing changes
  ('newenv',)                                 a second Environment is created and used (schedule/pause/unpause/cancel of asset 1)
  ('step', key)                               one real Environment.step() with the tie-break choice `key`
  ('run', d)                                  opens a run of duration d exactly as Environment.run does; until its
                                              TERMINATE fires only ('step', key) is enabled (these cost no depth)
Oracle: an independent reference queue (plain list of records) executes the same
operations; compared after EVERY operation (pending / paused multisets, clock) and at
every dispatch (tie group, executed event, clock, at-most-once), plus the run clause.
'''
from collections import Counter

from . import Violation, HarnessError
from . import canon
from .comp import CompWorld, world

from simprocesd.model.simulation import Environment, EventType

T, P, A, KIND, ARG, PAUSED, CANC, FIRED = range(8)


class EnvAction:
    def __init__(self, w, rec):
        self.w = w
        self.rec = rec
        self.__name__ = 'env_action'

    def canon_key(self):
        return (self.rec[KIND], canon.fnum(self.rec[ARG]) if isinstance(self.rec[ARG], (int, float)) else self.rec[ARG])

    def __call__(self):
        self.w.fire(self)


class _PrefixDone(Exception):
    pass


class Boom(Exception):
    '''Raised by an action of kind 'boom' (a user callback that fails); the caller of step() handles it and carries on.'''


def rec_key(r):
    if r[KIND] == 'terminate':
        ak = ('Environment', 'environment', '_terminate')
    else:
        arg = canon.fnum(r[ARG]) if isinstance(r[ARG], (int, float)) else r[ARG]
        ak = ('obj', 'EnvAction', (r[KIND], arg))
    return repr((canon.fnum(r[T]), canon.fnum(float(r[P])), r[A], ak, bool(r[CANC])))


def ev_key(e):
    '''Key of a queued real event.  Event.paused_at is deliberately left out: the library keeps the
    stale pause time on an event after it was resumed; it is only read for events that are paused.'''
    return repr((canon.fnum(e.time), canon.fnum(float(e.event_type)), e.asset_id, canon.action_key(e.action),
                 bool(e.cancelled)))


class RefQueue:
    '''Executable reference model of the event queue (no sorting structure, no weights).'''

    def __init__(self):
        self.now = 0
        self.recs = []

    def _sort(self):
        self.recs.sort(key=rec_key)

    def schedule(self, t, asset, prio, kind, arg):
        r = [t, prio, asset, kind, arg, None, False, 0]
        self.recs.append(r)
        self._sort()
        return r

    def pause(self, a):
        n = 0
        for r in self.recs:
            if r[A] == a and r[PAUSED] is None:
                r[PAUSED] = self.now
                n += 1
        self._sort()
        return n

    def unpause(self, a):
        n = 0
        for r in self.recs:
            if r[A] == a and r[PAUSED] is not None:
                r[T] = r[T] + (self.now - r[PAUSED])
                r[PAUSED] = None
                n += 1
        self._sort()
        return n

    def cancel(self, a):
        n = 0
        for r in self.recs:
            if r[A] == a and not r[CANC]:
                r[CANC] = True
                n += 1
        self._sort()
        return n

    def candidates(self):
        live = [r for r in self.recs if r[PAUSED] is None]
        if not live:
            return []
        m = min((r[T], -float(r[P])) for r in live)
        return [r for r in live if (r[T], -float(r[P])) == m]

    def remove(self, r):
        for i, x in enumerate(self.recs):
            if x is r:
                del self.recs[i]
                return
        raise HarnessError('reference record vanished')


@world('env')
class EnvWorld(CompWorld):
    _canon_skip = CompWorld._canon_skip + ('last_fired', 'in_real_run', 'cur', 'assets', 'sched_ops', 'ext', 'runs', 'system')

    def __init__(self, params):
        super().__init__(params)
        self.system = None
        if params.get('system'):
            # the run is started through System.simulate() (C01 anchors system.py); no assets are registered
            from simprocesd.model import System
            saved = System._instance
            self.system = System()
            System._instance = saved
            self.env = self.system.env
        else:
            self.env = Environment()
        self.ref = RefQueue()
        self.mode = 'idle'
        self.run_end = None
        self.last_fired = None
        self.in_real_run = False
        p = params
        self.assets = p.get('assets', [1, 2])
        self.sched_ops = [tuple(x) for x in p['sched']]       # (dt, asset, prio, kind, arg)
        self.ext = p.get('ext', ['pause', 'unpause', 'cancel', 'past', 'step'])
        self.runs = p.get('runs', [1, 2.5])
        self.check()

    # ------------------------------------------------------------------ menu
    def tie_labels(self):
        tg = canon.tie_group(self.env)
        self.last_tie_size = len(tg)
        seen = set()
        out = []
        for e in tg:
            k = ev_key(e)
            if k not in seen:
                seen.add(k)
                out.append(('step', k))
        return out

    def menu(self):
        if self.mode == 'run':
            return self.tie_labels()
        out = []
        for i in range(len(self.sched_ops)):
            out.append(('sched', i))
        for k in ('pause', 'unpause', 'cancel'):
            if k in self.ext:
                for a in self.assets:
                    out.append((k, a))
        if 'past' in self.ext:
            out.append(('past',))
        if 'newenv' in self.ext:
            out.append(('newenv',))
        if 'step' in self.ext:
            out.extend(self.tie_labels())
        if not any(r[KIND] == 'boom' for r in self.ref.recs):
            for d in self.runs:
                out.append(('run', d))
        return self.restrict_first(out)

    def done(self):
        return self.budget <= 0 and self.mode == 'idle'

    # ------------------------------------------------------------------ transitions
    def apply_op(self, label):
        k = label[0]
        env, ref = self.env, self.ref
        if k == 'step':
            if self.mode == 'idle':
                self.budget -= 1
            self._step(label[1])
        else:
            if self.mode != 'idle':
                raise HarnessError(f'{label} while a run is open')
            self.budget -= 1
            if k == 'sched':
                dt, asset, prio, kind, arg = self.sched_ops[label[1]]
                self._schedule(env.now + dt, asset, prio, kind, arg)
            elif k in ('pause', 'unpause', 'cancel'):
                self._pcu(k, label[1])
            elif k == 'past':
                self._past()
            elif k == 'newenv':
                # another Environment is created (and used a little) next to this one: nothing here may change
                other = Environment()
                other.schedule_event(1, 1, EnvAction(self, [0, 0, 0, 'log', 0, None, False, 0]), EventType.FAIL)
                other.pause_matching_events(1)
                other.unpause_matching_events(1)
                other.cancel_matching_events(1)
                self.facts.append('second_environment')
            elif k == 'run' and label[1] < 0:
                self._negative_run(label[1])
            elif k == 'run':
                self._open_run(label[1])
                if not self.in_real_run:
                    # exactly the preamble of System.simulate / Environment.run (the replay goes through the real ones)
                    s = self.system
                    if s is not None and not s._simulation_is_initialized:
                        s.resource_manager.initialize(s._env)
                        s._initialize_assets()
                        s._simulation_is_initialized = True
                    env._terminated = False
                    env._trace = False
                    env.schedule_event(env.now + label[1], -1, env._terminate, EventType.TERMINATE)
            else:
                raise HarnessError(f'unknown op {label}')
        if not (k == 'run' and self.in_real_run):
            self.check()

    def _schedule(self, t, asset, prio, kind, arg):
        r = self.ref.schedule(t, asset, prio, kind, arg)
        self.env.schedule_event(t, asset, EnvAction(self, r), prio, 'harness')
        self.facts.append('sched:' + kind)

    def _negative_run(self, d):
        '''A run that would end before now: its end cannot be scheduled (before the current time) -> ValueError.'''
        env = self.env
        t0, q0 = env.now, [ev_key(e) for e in env._events]
        try:
            if self.system is not None:
                from simprocesd.model import System
                saved = System._instance
                System._instance = self.system
                try:
                    self.system.simulate(d, print_summary=False)
                finally:
                    System._instance = saved
            else:
                env.run(d)
        except ValueError:
            if env.now != t0 or [ev_key(e) for e in env._events] != q0:
                raise Violation('past_changed_state', f'rejected run({d}) changed the clock or the queue')
            env._terminated = True          # the rejected run never started
            self.facts.append('negative_run_rejected')
            return
        raise Violation('past_accepted', f'run({d}) accepted at now={t0}: clock is now {env.now}')

    def _past(self):
        before = canon.digest(self.env)
        try:
            self.env.schedule_event(self.env.now - 0.5, 1, EnvAction(self, [0, 0, 0, 'log', 0, None, False, 0]),
                                    EventType.FAIL)
        except ValueError:
            if canon.digest(self.env) != before:
                raise Violation('past_changed_state', 'rejected schedule_event changed the environment')
            self.facts.append('past_rejected')
            return
        raise Violation('past_accepted', f'schedule_event at {self.env.now - 0.5} accepted at now={self.env.now}')

    def _pcu(self, k, a):
        env, ref = self.env, self.ref
        n = getattr(ref, k)(a)
        before = canon.digest(env) if n == 0 else None
        # the id handed to the library is EQUAL to the one used when scheduling, never the same int object
        getattr(env, k + '_matching_events')(asset_id=int(str(a)))
        if n == 0:
            if canon.digest(env) != before:
                raise Violation('redundant_call', f'{k}({a}) with nothing to {k} changed the environment')
            self.facts.append('redundant_' + k)
        else:
            self.facts.append(k + '_effective')
            if k == 'pause' and ref.now > 0:
                self.facts.append('pause_at_nonzero_time')
            if k == 'unpause' and any(r[CANC] for r in ref.recs if r[A] == a):
                self.facts.append('unpause_of_cancelled')

    def _open_run(self, d):
        self.mode = 'run'
        self.run_end = self.ref.now + d
        self.ref.schedule(self.run_end, -1, EventType.TERMINATE, 'terminate', 0)
        self.facts.append('run_opened')

    def _step(self, key):
        env, ref = self.env, self.ref
        tg = canon.tie_group(env)
        real = Counter(ev_key(e) for e in tg)
        cands = ref.candidates()
        want = Counter(rec_key(r) for r in cands)
        if real != want:
            raise Violation('dispatch_order', f'at now={env.now}: events offered for dispatch {sorted(real)} but the '
                                              f'earliest/highest-priority pending events are {sorted(want)}')
        ev = None
        for e in tg:
            if ev_key(e) == key:
                ev = e
                break
        if ev is None:
            raise HarnessError(f'step: {key} not in tie group {sorted(real)}')
        if isinstance(ev.action, EnvAction):
            rec = ev.action.rec          # interchangeable twins: take the record of the event really dispatched
            if not any(r is rec for r in cands):
                raise Violation('dispatch_order', f'{rec} dispatched but it is not among the earliest pending events')
        else:
            rec = next(r for r in cands if rec_key(r) == key)
        if len(tg) > 1:
            self.facts.append('tie_choice')
        env._events.remove(ev)
        ev.random_weight = -1.0
        env._events.insert(0, ev)
        prev_now = env.now
        self.last_fired = None
        # the reference dispatches first (nested operations issued by the action see the new clock)
        ref.now = rec[T]
        ref.remove(rec)
        self.cur = rec
        try:
            Environment.step(env)
        except Boom:
            self.facts.append('action_raised')
        self.cur = None
        if env.now != rec[T]:
            raise Violation('clock', f'clock is {env.now} after executing an event due at {rec[T]}')
        if env.now < prev_now:
            raise Violation('clock_backwards', f'{prev_now} -> {env.now}')
        if rec[KIND] == 'terminate':
            if not env._terminated:
                raise Violation('run_end', 'TERMINATE executed but the run is still in progress')
        elif rec[CANC]:
            if self.last_fired is not None:
                raise Violation('cancelled_ran', f'action of a cancelled event ran: {rec}')
            self.facts.append('cancelled_skipped')
        else:
            if self.last_fired is not rec:
                raise Violation('not_executed', f'dispatched {rec} but its action did not run')
        if self.mode == 'run' and env._terminated:
            self._close_run()

    def _close_run(self):
        env, ref = self.env, self.ref
        if env.now != self.run_end:
            raise Violation('run_end', f'run ended with the clock at {env.now}, expected {self.run_end}')
        # (a user event that carries the end marker's own priority and is due exactly at the end ties with it: either order
        # is a legal tie-break, so it may be left pending)
        left = [r for r in ref.recs if r[PAUSED] is None and
                (r[T] < self.run_end or (r[T] == self.run_end and float(r[P]) > float(EventType.TERMINATE)))]
        if left:
            raise Violation('run_end', f'run to {self.run_end} ended with due events pending: {left}')
        self.mode = 'idle'
        self.run_end = None
        self.facts.append('run_completed')

    cur = None

    # ------------------------------------------------------------------ actions (called by the real queue)
    def fire(self, act):
        rec = act.rec
        env, ref = self.env, self.ref
        if rec is not self.cur:
            raise Violation('wrong_action', f'action of {rec} ran while dispatching {self.cur}')
        if rec[FIRED]:
            raise Violation('twice', f'action ran twice: {rec}')
        if rec[CANC]:
            raise Violation('cancelled_ran', f'action of a cancelled event ran: {rec}')
        if rec[PAUSED] is not None:
            raise Violation('paused_ran', f'action of a paused event ran: {rec}')
        rec[FIRED] += 1
        self.last_fired = rec
        k = rec[KIND]
        if k == 'log':
            return
        self.facts.append('nested:' + k)
        if k == 'follow':
            self._schedule(env.now + rec[ARG], rec[A], EventType.FAIL, 'log', 0)
        elif k in ('pause', 'unpause', 'cancel'):
            self._pcu(k, rec[ARG])
        elif k == 'past':
            self._past()
        elif k == 'boom':
            raise Boom()
        else:
            raise HarnessError(f'unknown action kind {k}')

    # ------------------------------------------------------------------ lock-step comparison
    def check(self):
        env, ref = self.env, self.ref
        if env.now != ref.now:
            raise Violation('clock', f'clock {env.now}, reference {ref.now}')
        real = Counter(ev_key(e) for e in env._events)
        want = Counter(rec_key(r) for r in ref.recs if r[PAUSED] is None)
        if real != want:
            raise Violation('pending', f'pending events {sorted(real.elements())} vs reference {sorted(want.elements())}')
        # paused events: asset, priority, action and REMAINING DELAY (time - paused_at) must agree
        def pk(t, p, a, ak, c, pa):
            return repr((canon.fnum(t - pa), canon.fnum(float(p)), a, ak, bool(c)))
        realp = Counter(pk(e.time, e.event_type, e.asset_id, canon.action_key(e.action), e.cancelled, e.paused_at)
                        for e in env._paused_events)
        wantp = Counter(pk(r[T], r[P], r[A], ('obj', 'EnvAction', (r[KIND], canon.fnum(r[ARG]) if isinstance(r[ARG], (int, float)) else r[ARG])),
                           r[CANC], r[PAUSED]) for r in ref.recs if r[PAUSED] is not None)
        if realp != wantp:
            raise Violation('paused', f'paused events (remaining delay, prio, asset, action, cancelled) '
                                      f'{sorted(realp.elements())} vs reference {sorted(wantp.elements())}')
        for a, b in zip(env._events, env._events[1:]):
            if b < a:
                raise Violation('queue_sorted', 'pending queue is not sorted by (time, priority)')

    # ------------------------------------------------------------------ linear replay through the real run()
    @classmethod
    def replay(cls, params, path):
        w = cls(params)
        it = iter(path)
        n = [0]

        def shim():
            try:
                label = next(it)
            except StopIteration:
                raise _PrefixDone()
            n[0] += 1
            try:
                w.apply(tuple(label))
            except BaseException as e:
                if not hasattr(e, 'mc_steps'):
                    e.mc_steps = n[0]
                raise

        try:
            for label in it:
                label = tuple(label)
                n[0] += 1
                try:
                    if label[0] == 'run' and label[1] >= 0:
                        w.in_real_run = True
                        w.apply(label)              # reference side + bookkeeping only
                        w.env.step = shim
                        import random as _random
                        _saved_rr = _random.random
                        _random.random = w._next_weight      # the run's own TERMINATE event draws a weight too
                        try:
                            if w.system is not None:
                                from simprocesd.model import System
                                saved = System._instance
                                System._instance = w.system
                                try:
                                    w.system.simulate(label[1], print_summary=False)   # the REAL System.simulate
                                finally:
                                    System._instance = saved
                            else:
                                w.env.run(label[1])      # the REAL run loop
                        finally:
                            _random.random = _saved_rr
                            w.env.__dict__.pop('step', None)
                            w.in_real_run = False
                        if w.mode != 'idle':
                            raise Violation('run_end', f'run({label[1]}) returned at t={w.env.now} before its end '
                                                       f't={w.run_end} was reached')
                        w.check()
                    else:
                        w.apply(label)
                except BaseException as e:
                    if not hasattr(e, 'mc_steps'):
                        e.mc_steps = n[0]
                    raise
        except _PrefixDone:
            return None
        if w.done():
            w.final()
        return w.digest().hex()
