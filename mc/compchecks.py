'''Checks decided on component worlds (DESIGN.md section 5: C01, C07, C09, C10, C12, C18, C19, C20).'''
from .checks import Check, check, _fact_nontrivial
from .comp import comp_job, split_first

F, FP, PP, LP, OHP = 5, 5.5, 7, 1.5, 11      # FAIL, FAIL+0.5, PASS_PART, OTHER_LOW-0.5 (> TERMINATE), OTHER_HIGH

COMP_TECH = ('explicit-state model checking of the real component: every sequence of public-API operations over a '
             'small argument alphabet up to a depth bound (all tie-break orders inside), state matching by canonical '
             'digest, lock-step comparison with an executable reference model after every operation')
COMP_NOTE = ('Bounded: operation alphabet and depth stated in the evidence rule; trusted: the reference model (plain '
             'Python, written from the property statement), the canonicaliser and CPython. Fork-derived final states are '
             're-derived by a linear replay that goes through the real run loop.')


def env_sched_c01():
    s = []
    for dt in (0, 1, 2.5):
        for pr in (F, FP, PP, LP):
            s.append((dt, 1, pr, 'log', 0))
    for dt in (0, 1):
        for pr in (F, LP):
            s.append((dt, 2, pr, 'log', 0))
    for dt in (0, 1):
        for a in (0, 1):
            s.append((dt, 1, F, 'follow', a))
    for k in ('pause', 'unpause', 'cancel'):
        s.append((1, 1, PP, k, 2))
    s.append((1, 2, F, 'cancel', 2))
    s.append((1, 1, F, 'past', 0))
    return s


def env_sched_c07():
    s = []
    for a in (1, 2, 3):
        for dt in (1, 2.5):
            s.append((dt, a, F, 'log', 0))
    s.append((0, 1, F, 'log', 0))
    s.append((1, 2, PP, 'log', 0))
    for k in ('pause', 'unpause', 'cancel'):
        s.append((1, 3, PP, k, 1))          # asset 3's action pauses/resumes/cancels asset 1 from inside
    s.append((0.5, 1, F, 'pause', 1))       # an action that pauses its own asset
    s.append((0.5, 2, F, 'follow', 1))
    return s


@check
class C01(Check):
    prop = 'C01'
    technique = COMP_TECH
    level_note = COMP_NOTE
    rule = ('every sequence of <=D operations (D=4 quick, 5 thorough) on a real Environment from the alphabet '
            '{schedule(dt in 0/1/2.5, asset 1/2, priority FAIL / FAIL+0.5 / PASS_PART / 1.5, action that logs / schedules '
            'a follow-up / pauses, resumes, cancels another asset / schedules in the past -- all from INSIDE the action), '
            'pause/unpause/cancel(asset), schedule-in-the-past, step with every tie-break choice, run(1), run(2.5) with '
            'every tie-break choice inside (free of depth)}; non-trivial = partition in which a tie was broken and a run '
            'completed; additionally the step monitor of every line exploration (C02..C17) executes the same clock/at-most-once checks')
    level_text = ('Lock-step agreement between the real event queue and a reference queue on every reachable state of the '
                  'bounded operation language: tie group offered for dispatch = earliest/highest-priority pending events, '
                  'clock = time of the executed event and monotone, ValueError exactly for the past, each action at most once, '
                  'cancelled/paused actions never, run(d) ends at t0+d with nothing due left; runs are replayed through the '
                  'real Environment.run().')
    nontrivial = _fact_nontrivial('tie_choice', 'run_completed')

    def jobs(self, tier):
        D = 4 if tier == 'quick' else 5
        params = {'depth': D, 'sched': env_sched_c01(), 'assets': [1, 2], 'runs': [1, 2.5]}
        return split_first('env', f'ENV-C01[D{D}]', params, e2=10, max_states=3000000, max_seconds=3000)


@check
class C07(Check):
    prop = 'C07'
    technique = COMP_TECH
    level_note = COMP_NOTE + (' The quantifier tail "longer sequences at random" is not part of this family of technique and '
                              'is not done; the exhaustive depth is reported.')
    rule = ('every sequence of <=D operations (D=5 quick, 6 thorough) on a real Environment from the pause-centric alphabet '
            '{schedule(dt 0/0.5/1/2.5, assets 1..3, two priorities; actions that pause / resume / cancel another asset or '
            'their own from inside, or schedule a follow-up), pause/unpause/cancel(asset 1..3) from outside, step with '
            'every tie choice, run(1) with every tie choice inside}; non-trivial = partition with an effective pause at a '
            'non-zero time, an effective unpause and a cancellation')
    level_text = ('Lock-step agreement with a reference queue that keeps (time, paused_at, cancelled) per record: after every '
                  'operation the multiset of pending events and the multiset of paused events with their REMAINING delay agree, '
                  'who runs and when agrees at every dispatch, untouched assets keep their events, redundant pause/unpause/cancel '
                  'calls leave the canonical state of the environment unchanged.')
    nontrivial = _fact_nontrivial('pause_at_nonzero_time', 'unpause_effective', 'cancel_effective')

    def jobs(self, tier):
        D = 5 if tier == 'quick' else 6
        params = {'depth': D, 'sched': env_sched_c07(), 'assets': [1, 2, 3], 'runs': [1],
                  'ext': ['pause', 'unpause', 'cancel', 'step']}
        return split_first('env', f'ENV-C07[D{D}]', params, e2=10, max_states=3000000, max_seconds=3000)
