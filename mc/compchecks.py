'''Checks decided on component worlds (DESIGN.md section 5: C01, C07, C09, C10, C12, C18, C19, C20).'''
from .checks import Check, check, _fact_nontrivial
from .comp import comp_job, split_first

F, FP, PP, LP, OHP = 5, 5.5, 7, 1.5, 11      # FAIL, FAIL+0.5, PASS_PART, OTHER_LOW-0.5 (> TERMINATE), OTHER_HIGH

COMP_TECH = ('explicit-state model checking of the real component: every sequence of public-API operations over a '
             'small argument alphabet up to a depth bound (all tie-break orders inside), state matching by canonical '
             'digest, lock-step comparison with an executable reference model after every operation')
COMP_NOTE = ('Bounded: operation alphabet and depth stated in the evidence rule; trusted: the reference model (plain '
             'Python, written from the property statement), the canonicaliser and CPython. Fork-derived final states are '
             're-derived by a linear replay that goes through the real run loop.')


def env_sched_c01():
    B_ = 1000      # the second asset's id is above CPython's small-int cache: equal ids are not identical objects
    s = []
    for dt in (0, 1, 2.5):
        for pr in (F, FP, PP, LP):
            s.append((dt, 1, pr, 'log', 0))
    for dt in (0, 1):
        for pr in (F, LP):
            s.append((dt, B_, pr, 'log', 0))
    for dt in (0, 1):
        for a in (0, 1):
            s.append((dt, 1, F, 'follow', a))
    for k in ('pause', 'unpause', 'cancel'):
        s.append((1, 1, PP, k, B_))
    s.append((1, B_, F, 'cancel', B_))
    s.append((1, 1, F, 'past', 0))
    # deliberately NOT on the dyadic grid: 0.1 + 0.2 = 0.30000000000000004 > 0.3 (times that differ by float noise)
    s.append((0.1, 1, F, 'follow', 0.2))
    s.append((0.3, B_, LP, 'log', 0))
    # an event that carries the id -1, which the library itself uses for TERMINATE and the resource manager's checks
    s.append((1, -1, F, 'log', 0))
    # an action that raises (the caller handles the exception and keeps stepping): it still ran, once
    s.append((0, 1, F, 'boom', 0))
    return s


def env_sched_c07():
    s = []
    for a in (1, 0, 1000):       # 0 is a legal asset id at this level (and falsy)
        for dt in (1, 2.5):
            s.append((dt, a, F, 'log', 0))
    s.append((0, 1, F, 'log', 0))
    s.append((1, 0, PP, 'log', 0))
    for k in ('pause', 'unpause', 'cancel'):
        s.append((1, 1000, PP, k, 1))       # asset 1000's action pauses/resumes/cancels asset 1 from inside
    s.append((0.5, 1, F, 'pause', 1))       # an action that pauses its own asset
    s.append((0.5, 0, F, 'follow', 1))
    # an event of asset 1 that carries the lowest priority there is (the one the run's own end marker uses)
    s.append((1, 1, 1, 'log', 0))
    return s


@check
class C01(Check):
    prop = 'C01'
    technique = COMP_TECH
    level_note = COMP_NOTE
    rule = ('every sequence of <=D operations (D=4 quick, 5 thorough) on a real Environment from the alphabet '
            '{schedule(dt in 0/1/2.5, asset 1/2, priority FAIL / FAIL+0.5 / PASS_PART / 1.5, action that logs / schedules '
            'a follow-up / pauses, resumes, cancels another asset / schedules in the past -- all from INSIDE the action), '
            'pause/unpause/cancel(asset), schedule-in-the-past, step with every tie-break choice, run(0), run(1), run(2.5) with '
            'every tie-break choice inside (free of depth)} plus one pair of times that differ only by float rounding '
            '(0.1+0.2 vs 0.3); every fork-derived terminal path is re-run linearly through the real System.simulate(); non-trivial = partition in which a tie was broken and a run '
            'completed; additionally the step monitor of every line exploration (C02..C17) executes the same clock/at-most-once checks')
    level_text = ('Lock-step agreement between the real event queue and a reference queue on every reachable state of the '
                  'bounded operation language: tie group offered for dispatch = earliest/highest-priority pending events, '
                  'clock = time of the executed event and monotone, ValueError exactly for the past, each action at most once, '
                  'cancelled/paused actions never, run(d) ends at t0+d with nothing due left; runs are replayed through the '
                  'real Environment.run().')
    nontrivial = _fact_nontrivial('tie_choice', 'run_completed')

    def jobs(self, tier):
        D = 4 if tier == 'quick' else 5
        params = {'depth': D, 'sched': env_sched_c01(), 'assets': [1, 1000], 'runs': [-1, 0, 1, 2.5], 'system': True}
        # every fork-derived terminal path (up to 4000 per partition) is re-run linearly through the real System.simulate()
        jobs = split_first('env', f'ENV-C01[D{D}]', params, e2=4000, max_states=3000000, max_seconds=3000,
                           max_terminal_paths=4000)
        # longer sequences over a reduced alphabet (two assets, one priority, plain actions, pause/unpause/cancel, run(1)):
        # the queue must stay ordered after several pauses and resumptions of the same asset
        D2 = 7 if tier == 'quick' else 8
        deep = {'depth': D2, 'sched': [(1, 1, F, 'log', 0), (2.5, 1, F, 'log', 0), (1, 2, F, 'log', 0), (2.5, 2, PP, 'log', 0)],
                'assets': [1, 2], 'runs': [1], 'ext': ['pause', 'unpause', 'cancel'], 'system': True}
        jobs += split_first('env', f'ENV-C01deep[D{D2}]', deep, e2=300, max_states=5000000, max_seconds=3000)
        return jobs


@check
class C07(Check):
    prop = 'C07'
    technique = COMP_TECH
    level_note = COMP_NOTE + (' The quantifier tail "longer sequences at random" is not part of this family of technique and '
                              'is not done; the exhaustive depth is reported.')
    rule = ('every sequence of <=D operations (D=5 quick, 6 thorough) on a real Environment from the pause-centric alphabet '
            '{schedule(dt 0/0.5/1/2.5, assets 1..3, two priorities; actions that pause / resume / cancel another asset or '
            'their own from inside, or schedule a follow-up), pause/unpause/cancel(asset 1..3) from outside, step with '
            'every tie choice, run(1) with every tie choice inside}, plus every sequence of <=7 (9 thorough) operations over a '
            'reduced alphabet (two assets, delays 1/2.5, pause/unpause/cancel, run(1)); non-trivial = partition with an effective pause at a '
            'non-zero time, an effective unpause and a cancellation')
    level_text = ('Lock-step agreement with a reference queue that keeps (time, paused_at, cancelled) per record: after every '
                  'operation the multiset of pending events and the multiset of paused events with their REMAINING delay agree, '
                  'who runs and when agrees at every dispatch, untouched assets keep their events, redundant pause/unpause/cancel '
                  'calls leave the canonical state of the environment unchanged.')
    nontrivial = _fact_nontrivial('pause_at_nonzero_time', 'unpause_effective', 'cancel_effective')

    def jobs(self, tier):
        D = 5 if tier == 'quick' else 6
        params = {'depth': D, 'sched': env_sched_c07(), 'assets': [1, 0, 1000], 'runs': [1],
                  'ext': ['pause', 'unpause', 'cancel', 'step', 'newenv']}
        jobs = split_first('env', f'ENV-C07[D{D}]', params, e2=200, max_states=3000000, max_seconds=3000)
        # longer sequences over a reduced alphabet (two assets, one priority, plain actions)
        D2 = 7 if tier == 'quick' else 9
        deep = {'depth': D2, 'sched': [(1, 1, F, 'log', 0), (2.5, 1, F, 'log', 0), (1, 2, F, 'log', 0), (2.5, 2, F, 'log', 0)],
                'assets': [1, 2], 'runs': [1], 'ext': ['pause', 'unpause', 'cancel'], 'weights': 'dec'}
        jobs += split_first('env', f'ENV-C07deep[D{D2}]', deep, e2=200, max_states=5000000, max_seconds=3000)
        return jobs


BIG = 3000000000
RM_ADDS = [['a', 1], ['a', -1], ['a', -2], ['b', 1], ['b', -1], ['n', 1], ['n', -3], ['a', 0]]
RM_REQUESTS = [{'a': 1}, {'a': 2}, {'a': 1, 'b': 1}, {'b': 1, 'a': 2}, {'a': 0}, {}, {'a': 1, 'b': -1}, {'b': -1, 'a': 1},
               {'a': -1}, {'zz': 1}, {'a': 1, 'zz': 0}, {'a': 1, 'zz': 1}, {'zz': 0, 'b': 1}]
RM_RELEASES = [None, {'a': 1}, {'a': 2}, {'a': 5}, {'zz': 1}, {'a': 1, 'zz': 0}, {'a': -1}, {'a': 0}, {'b': 1}, {'a': 1, 'b': 5}, {}]


@check
class C09(Check):
    prop = 'C09'
    technique = COMP_TECH
    level_note = COMP_NOTE + (' The quantifier tail "longer sequences at random" is not part of this family of technique and '
                              'is not done; the exhaustive depth is reported.')
    rule = ('every sequence of <=D operations (D=6 quick, 8 thorough) on a real ResourceManager (pools a:2, b:1) from '
            '{add_resources(a|b|new, +-1/-2/-3/0), reserve_resources(12 request shapes: single, multi in both key orders, zero, '
            'empty, negative entry first/last, unknown name with 0 and 1), release(9 shapes: all, partial, excessive, unknown '
            'key, zero of an unknown key next to a valid entry, negative, zero, second entry excessive) on each of <=3 live '
            'reservations, merge(i,j) of distinct reservations}; non-trivial = partition in which something was reserved, '
            'released and an operation raised')
    level_text = ('Lock-step agreement with a reference pool after every operation: usage = sum of outstanding holdings >= 0, '
                  'capacity >= 0, usage > capacity only after an explicit reduction, success iff the request fits and then exactly '
                  'the request is taken, an operation that raises leaves pool and all reservations unchanged, merge keeps usage.')
    nontrivial = _fact_nontrivial('reserved', 'released')

    def jobs(self, tier):
        D = 6 if tier == 'quick' else 8
        params = {'depth': D, 'adds': RM_ADDS, 'requests': RM_REQUESTS, 'releases': RM_RELEASES}
        jobs = split_first('rm', f'RM-C09[D{D}]', params, e2=10, max_states=3000000, max_seconds=3000)
        # large whole amounts: a shortage of one unit in three thousand million is still a shortage
        big = {'depth': D - 1, 'adds': [['a', 1], ['a', -1]], 'requests': [{'a': 1}, {'a': BIG}, {'a': BIG - 1}],
               'releases': [None, {'a': 1}, {'a': BIG}], 'pools': [['a', BIG]], 'resys': False}
        jobs += split_first('rm', f'RM-C09big[D{D - 1}]', big, e2=5, max_states=3000000, max_seconds=3000)
        # fractional amounts (documented "int, float"), dyadic so that sums are exact: with 0.1 / 0.2 / 0.8 the pinned
        # library's own usage differs from the sum of the holdings by float rounding (0.20000000000000007 vs 0.2), which
        # an exact comparison cannot tell from a defect
        frac = {'depth': D - 1, 'adds': [['a', 0.25], ['a', -0.25]], 'requests': [{'a': 0.25}, {'a': 0.5}, {'a': 0.75}, {'a': 1.25}],
                'releases': [None, {'a': 0.25}], 'pools': [['a', 1]], 'resys': False}
        jobs += split_first('rm', f'RM-C09frac[D{D - 1}]', frac, e2=5, max_states=3000000, max_seconds=3000)
        return jobs


@check
class C10(Check):
    prop = 'C10'
    technique = COMP_TECH
    level_note = COMP_NOTE
    rule = ('every sequence of <=D operations (D=5 quick, 6 thorough) on a real ResourceManager + real Environment (pools a:2, b:1) '
            'from {reserve_resources_with_callback(request in {a:1},{a:2},{a:1,b:1}; callback that does nothing / reserves the '
            'request / reserves it and registers a new waiter / adds capacity from inside), direct reserve, full release of any live reservation, '
            'add_resources(a|b, +-1), "drain the current instant" (real step() until the instant is exhausted), "advance" (real '
            'run(1))}, <=3 simultaneous waiters; all events of this world are interchangeable availability checks, so there is no '
            'tie-break to enumerate; non-trivial = partition in which several waiters were served in one check and the clock advanced')
    level_text = ('Lock-step agreement with a reference waiting list: at every drain/advance the log of callback invocations '
                  '(identity, order, fitted-at-that-moment, arguments) equals one in-order scan of the reference that re-evaluates '
                  'feasibility after each callback; never synchronously; whenever the clock advances no feasible request is registered.')
    nontrivial = _fact_nontrivial('served_several_in_order', 'clock_advanced')

    def jobs(self, tier):
        D = 5 if tier == 'quick' else 6
        params = {'depth': D, 'adds': [['a', 1], ['a', -1], ['b', 1], ['b', -1]],
                  'requests': [{'a': 1}, {'a': 2}, {'a': 1, 'b': 1}], 'pools': [['a', 2], ['b', 1]],
                  'kinds': ['noop', 'take', 'again', 'give']}
        jobs = split_first('rmwait', f'RMWAIT-C10[D{D}]', params, e2=50, max_states=3000000, max_seconds=3000)
        # the same alphabet started from a non-initial state: pool 'a' over capacity (2 in use, capacity reduced to 1)
        p2 = dict(params)
        p2['prefix'] = [['reserve', 1], ['add', 1], ['advance']]
        jobs += split_first('rmwait', f'RMWAIT-C10over[D{D}]', p2, e2=50, max_states=3000000, max_seconds=3000)
        # requests with a zero amount of a resource that was never defined / is over-committed; registrations that
        # share ONE callback object
        p3 = {'depth': D, 'adds': [['a', 1], ['a', -1]], 'requests': [{'a': 1}, {'a': 1, 'zz': 0}, {'a': 0, 'b': 1}],
              'pools': [['a', 1], ['b', 1]], 'kinds': ['noop', 'take', 'shared']}
        jobs += split_first('rmwait', f'RMWAIT-C10zero[D{D}]', p3, e2=50, max_states=3000000, max_seconds=3000)
        # a resource that is defined for the first time while a request for it is already waiting; amounts of the order of
        # 1e9 (shortage of one unit in three thousand million)
        p4 = {'depth': D, 'adds': [['n', 1], ['n', -1], ['a', 1]], 'requests': [{'n': 1}, {'a': BIG}, {'a': 1, 'n': 1}],
              'pools': [['a', BIG]], 'kinds': ['noop', 'take']}
        jobs += split_first('rmwait', f'RMWAIT-C10new[D{D}]', p4, e2=50, max_states=3000000, max_seconds=3000)
        p5 = {'depth': D, 'adds': [['a', 0.25], ['a', -0.25]], 'requests': [{'a': 0.25}, {'a': 0.5}, {'a': 0.75}],
              'pools': [['a', 1]], 'kinds': ['noop', 'method'],
              'late_release': True}     # ... and releases made from an event on the very last instant of a run
        jobs += split_first('rmwait', f'RMWAIT-C10frac[D{D}]', p5, e2=50, max_states=3000000, max_seconds=3000)
        return jobs


MAINT_TARGETS = [{'table': {'x': [1, [1], 3], 'y': [0, [0], 0]}, 'nested': {'end:x': [1, 'y']}},
                 {'table': {'x': [2, [1.5, 1], 0], 'y': [[1, 2], [1], 0], 'big': [5, [1], 0]}},
                 {'table': {'x': [1, [0], 3], 'y': [1, [0.5], 0]}, 'nested': {'start:x': [0, 'y'], 'end:y': [2, 'y']}}]
MAINT_REQUESTS = [[0, 'x'], [0, 'y'], [1, 'x'], [1, 'y'], [1, 'big'], [2, 'x'], [2, 'y']]
# tags are handed to the maintainer as freshly built tuples: equal, but never the same object twice


@check
class C12(Check):
    prop = 'C12'
    technique = COMP_TECH
    level_note = COMP_NOTE + (' "Start in request order" is read as the order in which the maintainer commits capacity to orders '
                              '(selection); START_WORK events of orders selected in one scan are tied at one instant and may execute '
                              'in either order (DESIGN.md section 5, C12).')
    rule = ('for maintainer capacity 0, 1, 2 and unlimited: every interleaving of <=D create_work_order calls (D=4 quick, 5 thorough) '
            'over 3 targets (two of which carry the same name) x tags (needed capacity 0,1,2,5>total and one cycling 1,2 per query; durations 0, 0.5, 1, 1.5 -- one cycling per query; cost 0/3; '
            'one target requesting further orders from inside its start and end hooks, including itself) with every real event '
            'and every tie-break order among simultaneous starts/finishes; non-trivial = partition with overlapping orders, a '
            'duplicate rejected and an order left queued while the clock advanced')
    level_text = ('Lock-step agreement with a reference maintainer after every request and every real event: return value, '
                  'available capacity, scheduled starts/finishes (finish = start + duration reported at start), waiting queue in '
                  'request order, hooks once each, cost charged once at start, one record per occurrence; whenever the clock advances '
                  'no startable order is waiting.')
    nontrivial = _fact_nontrivial('overlapping_orders', 'rejected_duplicate')

    def jobs(self, tier):
        D = 4 if tier == 'quick' else 5
        jobs = []
        for cap in (0, 1, 2, None):
            params = {'depth': D, 'capacity': cap, 'targets': MAINT_TARGETS, 'requests': MAINT_REQUESTS, 'same_name': [[2, 0]]}
            jobs += split_first('maint', f'MAINT-C12[cap{cap},D{D}]', params, e2=10, max_states=3000000, max_seconds=3000)
        return jobs
