'''Line worlds: closed systems of REAL simprocesd devices built from a declarative
spec, stepped one real Environment.step() at a time (E1) or driven from inside the
real System.simulate() (E2).  See DESIGN.md sections 2-4.
'''
import math
import os
import random

from . import Violation, HarnessError
from . import canon, globalstate

from simprocesd.model import System, EventType, Environment, ResourceManager
from simprocesd.model.simulation import Event
from simprocesd.model.factory_floor import (Asset, Part, PartGenerator, Batch, PartHandler,
                                            PartFlowController, DecisionGate, Group, PartBatcher,
                                            PartProcessor, Source, Buffer, Sink, Maintainer)
from simprocesd.model.factory_floor.group import GroupPath, GroupInput, GroupOutput
from simprocesd.model.factory_floor.action_scheduler import ActionScheduler
from simprocesd.model.sensors import PeriodicSensor, AttributeProbe
from simprocesd.model.sensors.part_sensor import OutputPartSensor
from simprocesd.model.cms.cms import Cms

class _EventWatchdog:
    '''One event that burns more than 10-20 s of CPU (they normally take microseconds) is an endless loop inside the
    library: the run does not return (C03, termination).  CPU time, not wall time, so that load on the machine does not
    matter.  One repeating virtual timer per process; an event that is still the current one at two consecutive ticks is
    reported.  Cost per event: two assignments.'''
    TICK = 10
    ENABLED = True
    seq = 0
    current = None
    seen = -1
    installed = None         # pid of the process in which the timer was armed (timers are not inherited by fork)

    @classmethod
    def _tick(cls, signum, frame):
        ev = cls.current
        if ev is None:
            cls.seen = -1
            return
        if cls.seen == cls.seq:
            cls.seen = -1
            what = ev() if callable(ev) else f'{canon.event_key(ev)[3]} due at t={ev.time}'
            v = Violation('termination', f'one event ({what}) used more than '
                                         f'{cls.TICK} s of CPU without returning: the run does not return')
            v.fatal = True
            raise v
        cls.seen = cls.seq

    def __init__(self, ev):
        self.ev = ev

    def __enter__(self):
        cls = _EventWatchdog
        if cls.ENABLED and cls.installed != os.getpid():
            import signal
            import threading
            cls.installed = os.getpid()
            if threading.current_thread() is threading.main_thread():
                signal.signal(signal.SIGVTALRM, cls._tick)
                signal.setitimer(signal.ITIMER_VIRTUAL, cls.TICK, cls.TICK)
        cls.seq += 1
        cls.current = self.ev
        return self

    def __exit__(self, *a):
        _EventWatchdog.current = None
        return False


class AbortRun(Exception):
    '''Raised by the scripted operation 'abort' from inside an event: a user callback that fails.  The run ends there.'''


HARNESS_ID = -1          # asset id of harness events: the id the library itself uses for events without an owning asset

# Observation of Asset.initialize (C20: "initialised exactly once"): a logging wrapper installed from here around the
# base-class method; behaviour unchanged.  The log goes to the hub of the world that is currently entered.
_CURRENT_HUB = [None]
_orig_asset_initialize = Asset.initialize


def _logged_initialize(self, env):
    hub = _CURRENT_HUB[0]
    if hub is not None:
        hub.tlog.append(('initialize', self.name, type(self).__name__, self.id))
    return _orig_asset_initialize(self, env)


Asset.initialize = _logged_initialize
INF = float('inf')


# --------------------------------------------------------------------------- parts

def leaves(part):
    '''Leaf part ids of a part or (nested) batch.'''
    if part is None:
        return []
    if isinstance(part, Batch):
        out = []
        for p in part.parts:
            out.extend(leaves(p))
        return out
    return [part.id]


def leaf_parts(part):
    if part is None:
        return []
    if isinstance(part, Batch):
        out = []
        for p in part.parts:
            out.extend(leaf_parts(p))
        return out
    return [part]


def true_value(part):
    '''Worth of an item computed from its leaves (independent of Batch.value, which is under test).'''
    if isinstance(part, Batch):
        return sum(true_value(p) for p in part.parts)
    return part.value


class Widget(Part):
    '''A user subclass of Part, legal but unfriendly: container-like (len 0, hence falsy) and compared by grade, so
    that DISTINCT parts of equal quality compare equal and hash alike.  A library that tests parts for truth, or finds
    them with ==-based searches (in / index / remove / dict keys), is exposed; one that uses `is` / `== None` is not.'''

    parts = ()          # an attribute that happens to be called like Batch.parts (the components of an assembly, say)

    def __len__(self):
        return 0

    def __eq__(self, other):
        return isinstance(other, Widget) and other.quality == self.quality

    def __hash__(self):
        return 7


class Pallet(Batch):
    '''A user subclass of Batch (what a user PartGenerator typically builds): sized by its content (an empty pallet is
    falsy), equal to any pallet with equal content.'''

    def __len__(self):
        return len(self.parts)

    def __eq__(self, other):
        return isinstance(other, Pallet) and other.parts == self.parts

    def __hash__(self):
        return 11


class HPartGen(PartGenerator):
    '''User-level PartGenerator (the documented extension point) that makes part ids
    a function of (source, ordinal) so that states reached by different tie orders
    are comparable, and keeps the registry of generated leaf parts.

    pattern: cyclic list; None -> single Part, n -> Batch of n Parts (n may be 0)
    qualities / values: cyclic lists applied by leaf ordinal.
    '''

    def __init__(self, prefix, base, pattern=None, qualities=None, values=None):
        super().__init__(prefix, value=0, quality=1)
        self.base = base
        self.pattern = pattern or [None]
        self.qualities = qualities or [1]
        self.values = values or [0]
        self.generated = []      # leaf ids in generation order
        self.items = []          # per generated item: list of leaf ids
        self._leaf_no = 0

    def _leaf(self, name):
        q = self.qualities[self._leaf_no % len(self.qualities)]
        v = self.values[self._leaf_no % len(self.values)]
        self._leaf_no += 1
        p = Widget(name=name, value=v, quality=q)
        self.generated.append(p.id)
        return p

    def _shape(self, shape, name):
        '''int n -> Batch of n parts; list -> Batch whose members are the shapes in the list (nested batches).'''
        b = Pallet(name=name)
        if isinstance(shape, int):
            shape = [None] * shape
        for i, sh in enumerate(shape):
            nm = f'{name}.{i + 1}'
            b.parts.append(self._leaf(nm) if sh is None else self._shape(sh, nm))
        return b

    def generate_part_helper(self, part_name, part_counter):
        saved = Asset._id_counter
        Asset._id_counter = self.base + part_counter * 8 - 1
        try:
            shape = self.pattern[(part_counter - 1) % len(self.pattern)]
            if shape is None:
                item = self._leaf(part_name)
                self.items.append([item.id])
            else:
                item = self._shape(shape, part_name)
                self.items.append(list(leaves(item)))
                assert Asset._id_counter <= self.base + (part_counter + 1) * 8 - 1, 'id block of 8 exhausted'
        finally:
            Asset._id_counter = saved
        return item


# --------------------------------------------------------------------------- devices

class HProcessor(PartProcessor):
    '''PartProcessor whose work orders take time/capacity/cost by tag (the examples
    subclass PartProcessor the same way).  Only the three getters and logging hooks
    are overridden; shutdown/restore behaviour is the library default.'''

    def __init__(self, *a, wo=None, **kw):
        self.slow_factor = None      # spec 'slow': parts of quality < 0.5 take slow_factor times the configured cycle time
        super().__init__(*a, **kw)
        self.wo_table = wo or {}
        self.cost_calls = {}
        self.hub = None

    @PartProcessor.cycle_time.getter
    def cycle_time(self):
        '''The documented way to make the cycle time depend on the state of the device (the library's own Buffer
        overrides the getter the same way): the public property is what the library has to use.'''
        base = self._cycle_time
        if self.slow_factor and self._part is not None and self._part.quality < 0.5:
            return base * self.slow_factor
        return base

    def get_work_order_capacity(self, tag):
        return self.wo_table.get(tag, (0, 0, 0))[0]

    def get_work_order_duration(self, tag):
        return self.wo_table.get(tag, (0, 0, 0))[1]

    def get_work_order_cost(self, tag):
        c = self.wo_table.get(tag, (0, 0, 0))[2]
        if isinstance(c, (list, tuple)):          # a price that changes from order to order
            n = self.cost_calls.get(tag, 0)
            self.cost_calls[tag] = n + 1
            c = c[n % len(c)]
        if self.hub is not None:
            self.hub.tlog.append(('wo_cost', self.name, tag, c))
        return c

    def start_work(self, tag):
        if self.hub is not None:
            self.hub.tlog.append(('start_work', self.name, tag))
        super().start_work(tag)

    def end_work(self, tag):
        if self.hub is not None:
            self.hub.tlog.append(('end_work', self.name, tag))
        super().end_work(tag)


def decide_q_ge(gate, part):
    return part.quality >= 0.5


def decide_q_lt(gate, part):
    return part.quality < 0.5


def decide_all(gate, part):
    return True


def decide_q_ge_none(gate, part):
    if part.quality >= 0.5:
        return True          # "no" is answered by falling off the end (None), as user code often does


def decide_q_lt_none(gate, part):
    if part.quality < 0.5:
        return True


def _passes(part, name):
    return sum(1 for d in part.routing_history if d.name == name)


def decide_again(gate, part):
    '''Parts that went through the buffer called B fewer than twice go round again.'''
    return _passes(part, 'B') < 2


def decide_done(gate, part):
    return _passes(part, 'B') >= 2


DECIDERS = {'again': decide_again, 'done': decide_done, 'q_ge': decide_q_ge, 'q_lt': decide_q_lt, 'all': decide_all, 'q_ge_none': decide_q_ge_none,
            'q_lt_none': decide_q_lt_none}


class GiveWrap:
    '''Instance-level observer around a device's give_part (behaviour unchanged).

    Appends to hub.gives (indexed, with the index of the enclosing give_part call)
    and, on completion, to hub.tlog:
      ('gave', index, parent, receiver, part id, leaf ids, accepted, is_batch,
       value at call, quality at call, receiver blocked at call)
    '''

    def __init__(self, hub, dev):
        self.hub = hub
        self.dev = dev

    def __call__(self, part):
        hub = self.hub
        idx = len(hub.gives)
        parent = hub.stack[-1] if hub.stack else -1
        hub.gives.append(None)
        hub.stack.append(idx)
        if part is not None:
            pid, lv, isb, val, q = part.id, tuple(leaves(part)), isinstance(part, Batch), true_value(part), part.quality
        else:
            pid, lv, isb, val, q = None, (), False, 0, None
        blocked = bool(self.dev._block_input)
        try:
            r = type(self.dev).give_part(self.dev, part)
        finally:
            hub.stack.pop()
        rec = ('gave', idx, parent, self.dev.name, pid, lv, bool(r), isb, val, q, blocked)
        hub.gives[idx] = rec
        hub.tlog.append(rec)
        if r and isinstance(self.dev, Sink) and not hub.probing:
            hub.delivered.setdefault(self.dev.name, []).extend(lv)
            hub.delivered_items.setdefault(self.dev.name, []).append(pid)
        return r


class Hub:
    '''Ground-truth observation shared by the monitors.

    per transition (cleared by LineWorld.apply, not part of the digest):
        gives : list of (parent index, receiver name, part id, leaf ids, accepted)
        tlog  : list of tuples from callbacks, in call order
    persistent (part of the digest):
        delivered : sink name -> leaf ids in arrival order (from accepted give_part)
        lost      : list of (machine, part id, leaf ids) reported to shutdown callbacks
    '''
    _canon_skip = ('gives', 'tlog', 'stack', 'probing', 'actor')

    def __init__(self):
        self.gives = []
        self.tlog = []
        self.stack = []
        self.probing = False
        self.actor = None
        self.delivered = {}
        self.delivered_items = {}
        self.lost = []

    def begin(self, actor):
        self.gives = []
        self.tlog = []
        self.stack = []
        self.actor = actor

    # callbacks registered through the public API -------------------------------
    def on_receive(self, dev, part):
        self.tlog.append(('received', dev.name, part.id, tuple(leaves(part)), part.quality, true_value(part)))

    def on_finish(self, dev, part):
        self.tlog.append(('finished', dev.name, part.id, tuple(leaves(part)), part.quality, true_value(part)))

    def on_shutdown(self, dev, is_failure, part):
        self.tlog.append(('shutdown', dev.name, bool(is_failure), part.id if part is not None else None))
        if part is not None:
            self.lost.append((dev.name, part.id, tuple(leaves(part))))

    def on_restored(self, dev):
        self.tlog.append(('restored', dev.name))


class Probe3:
    '''One of several ordered probes (callback-order clause of C13).'''

    def __init__(self, hub, n):
        self.hub = hub
        self.n = n

    def shutdown(self, dev, is_failure, part):
        self.hub.tlog.append(('probe_shutdown', dev.name, self.n, bool(is_failure),
                              part.id if part is not None else None))

    def restored(self, dev):
        self.hub.tlog.append(('probe_restored', dev.name, self.n))


class AutoRepair:
    '''Shutdown callback that requests a work order after a failure, as the examples do.'''

    def __init__(self, devs, hub, tag):
        self.devs = devs        # name -> asset (the maintainer is created later, looked up at call time)
        self.hub = hub
        self.tag = tag

    def __call__(self, dev, is_failure, part):
        if is_failure:
            mts = [a for n, a in self.devs.items() if isinstance(a, Maintainer) and not n.endswith('_spare')]
            mt = mts[-1]
            r = mt.create_work_order(dev, self.tag)
            self.hub.tlog.append(('wo_request', dev.name, self.tag, bool(r), mt.name))


class InstantRepair:
    '''Shutdown callback that puts a failed machine back into service at once (a zero-time auto-recover).'''

    def __call__(self, dev, is_failure, part):
        if is_failure:
            dev.restore_functionality()


class RetryRepair:
    '''Shutdown callback for a micro-stop: the failed machine is restored at once and gets the part it lost again.'''

    def __call__(self, dev, is_failure, part):
        if is_failure:
            dev.restore_functionality()
            if part is not None:
                dev.give_part(part)


class CycleByOrdinal:
    '''Receive callback: sets the cycle time / one-shot offset for the n-th part.'''

    def __init__(self, cycles=None, offsets=None):
        self.cycles = cycles
        self.offsets = offsets
        self.n = 0

    def __call__(self, dev, part):
        i = self.n
        self.n += 1
        if self.cycles:
            dev.cycle_time = self.cycles[i % len(self.cycles)]
        if self.offsets:
            off = self.offsets[i % len(self.offsets)]
            for o_ in (off if isinstance(off, (list, tuple)) else [off]):     # several calls for ONE cycle accumulate
                if o_:
                    dev.offset_next_cycle_time(o_)


class AddValue:
    '''Finish-processing callback: adds value / changes quality of the finished part.'''

    def __init__(self, dv=0, dq=0):
        self.dv = dv
        self.dq = dq

    def __call__(self, dev, part):
        for p in leaf_parts(part):
            if self.dv:
                p.add_value('processed', self.dv)
            if self.dq:
                p.quality += self.dq


class Rec:
    '''A hashable but MUTABLE record (an ordinary user-defined class): sensors must store a copy of it too.'''

    def __init__(self, v=0):
        self.v = v

    def __eq__(self, other):
        return isinstance(other, Rec) and other.v == self.v

    def __hash__(self):
        return 17

    def __repr__(self):
        return f'Rec({self.v})'


class SchedObj:
    '''Plain object registered with an ActionScheduler / probed by sensors.'''

    def __init__(self, name):
        self.name = name
        self.x = [0]          # mutated IN PLACE by the 'bump' operation (sensors must have stored a copy)
        self.n = 0
        self.r = Rec(0)       # mutated in place as well
        self.m = None         # an attribute that is None at some instants and a number at others
        self.block_input = False


class HScheduler(ActionScheduler):
    '''ActionScheduler whose default action logs the call and, like examples/OperatingSchedule.py, blocks the
    input of the registered object in state "off".'''

    def __init__(self, *a, hub=None, **kw):
        self.hub = hub
        super().__init__(*a, **kw)

    def default_action(self, obj, time, new_state):
        if self.current_state != new_state:
            self.hub.tlog.append(('sched_state_lag', self.name, self.current_state, new_state))
        self.hub.tlog.append(('sched_action', self.name, getattr(obj, '_hkey', obj.name), time, new_state, 'default'))
        if hasattr(obj, 'block_input'):
            obj.block_input = (new_state == 'off')


class OverrideAction:
    def __init__(self, hub):
        self.hub = hub

    def __call__(self, sched, obj, time, new_state):
        if sched.current_state != new_state:
            self.hub.tlog.append(('sched_state_lag', sched.name, sched.current_state, new_state))
        self.hub.tlog.append(('sched_action', sched.name, getattr(obj, '_hkey', obj.name), time, new_state, 'override'))


class CreatorAction:
    '''Override action that, the first time it is invoked (the scheduler's start-up during the one-time initialisation
    of the assets), creates further assets: an asset created from inside another asset's initialize().'''
    _canon_skip = ('world',)

    def __init__(self, world, late_indices):
        self.world = world
        self.late = list(late_indices)
        self.done = False

    def __call__(self, sched, obj, time, new_state):
        self.world.hub.tlog.append(('sched_action', sched.name, getattr(obj, '_hkey', obj.name), time, new_state, 'override'))
        if not self.done:
            self.done = True
            self.world.run_op(('create',) + tuple(self.late), direct=True)


class SenseCallback:
    def __init__(self, hub, n, key=None):
        self.hub = hub
        self.n = n
        self.key = key        # the harness's own name for the sensor (asset names need not be unique)

    def __call__(self, sensor, time, values):
        import copy
        lens = sorted(set(len(v) for v in sensor.data.values()))
        if len(lens) > 1:
            # inside the callback the stored series must already be aligned (same length for every probe and the time)
            self.hub.tlog.append(('series_misaligned', self.key or sensor.name, time,
                                  {str(k if isinstance(k, str) else 'probe'): len(v) for k, v in sensor.data.items()}))
        self.hub.tlog.append(('sense_cb', self.key or sensor.name, self.n, time, copy.deepcopy(values)))


class HCms(Cms):
    def __init__(self, *a, hub=None, devs=None, **kw):
        self.hub = hub
        self.devs = devs
        super().__init__(*a, **kw)

    def on_sense(self, sensor, time, data):
        import copy
        key = sensor.name
        for k, v in (self.devs or {}).items():
            if v is sensor:
                key = k
        self.hub.tlog.append(('cms', self.name, key, time, copy.deepcopy(data)))


class OpAction:
    '''Injected environment operation, delivered as a real event.'''
    _canon_skip = ('world',)      # the world is the root of every digest; the action is identified by its index

    def __init__(self, world, idx):
        self.world = world
        self.idx = idx
        self.__name__ = 'op'

    def canon_key(self):
        return self.idx

    def __call__(self):
        self.world.run_op(self.idx)


# --------------------------------------------------------------------------- world

class LineWorld:
    _canon_skip = ('spec', 'facts', 'last_tie_size', 'budget', 'mode', 'ops', 'horizon',
                   'op_limits', 'positions', '_saved', '_gsaved', 'script', 'dispatched', '_prev_hub', '_prev_rr', 'wcount',
                   'trail', 'mon_recipe')

    def __init__(self, spec, monitors=(), mode='e1'):
        self.spec = spec
        self.mode = mode
        self.trail = []              # labels applied so far (recipe for a replay-based fork, see fork/recipe)
        self.mon_recipe = [getattr(m, '_recipe', None) for m in monitors]
        self.horizon = spec['horizon']
        self.ops = [tuple(o) if not isinstance(o, tuple) else o for o in spec.get('ops', [])]
        self.op_limits = list(spec.get('op_limits') or [None] * len(self.ops))
        # scripted operations: part of the scenario (fixed time), not of the injection alphabet
        self.script = []
        for ent in spec.get('script', []):
            self.ops.append(tuple(ent[2]))
            self.op_limits.append(0)
            self.script.append((ent[0], ent[1], len(self.ops) - 1))
        self.positions = tuple(spec.get('positions', ('pre', 'end', 'mid')))
        self.budget = spec.get('K', 0)
        self.dispatched = None                        # E2 with trace: independent log of dispatched events
        self.splits_left = spec.get('splits', 0)      # how often the run may still be split (part of the digest)
        self.between = False                          # True between two consecutive runs
        self.used = [0] * len(self.ops)
        self.facts = []
        self.last_tie_size = 0
        self.started = False
        self.steps = 0
        self.instant_steps = 0       # events executed without the clock advancing (livelock guard, C03 termination)
        self.hub = Hub()
        self.monitors = list(monitors)
        self.id_counter = 0
        self.gvals = globalstate.fresh()
        gs = globalstate.enter(self.gvals)
        try:
            self._build()
        finally:
            globalstate.leave(self.gvals, gs)
        for m in self.monitors:
            m.attach(self)
        for t, prio, idx in self.script:
            self.env.schedule_event(t, HARNESS_ID, OpAction(self, idx), prio, 'script')
        if mode == 'e1':
            self._enter()
            self._init_like_simulate()
            self._leave()

    def __getstate__(self):
        d = dict(self.__dict__)
        d.pop('_saved', None)
        d.pop('_gsaved', None)
        d.pop('_prev_hub', None)
        d.pop('_prev_rr', None)
        return d

    # ------------------------------------------------------------------ globals
    # tie-break weights: see CompWorld._next_weight (same ownership of the random module's only use)
    wcount = 0

    def _next_weight(self):
        self.wcount += 1
        w = self.wcount * 1e-9
        return w if self.spec.get('weights', 'inc') == 'inc' else 1.0 - w

    def _enter(self):
        if self.mode == 'e2':       # globals are owned by run_e2 for the whole simulate()
            return
        self._saved = (Asset._id_counter, System._instance)
        Asset._id_counter = self.id_counter
        System._instance = self.system
        self._gsaved = globalstate.enter(self.gvals)
        self._prev_hub = _CURRENT_HUB[0]
        _CURRENT_HUB[0] = self.hub
        self._prev_rr = random.random
        random.random = self._next_weight

    def _leave(self):
        if self.mode == 'e2':
            self.id_counter = Asset._id_counter
            return
        _CURRENT_HUB[0] = self._prev_hub
        self._prev_hub = None
        random.random = self._prev_rr
        self._prev_rr = None
        self.id_counter = Asset._id_counter
        Asset._id_counter, System._instance = self._saved
        self._saved = None
        globalstate.leave(self.gvals, self._gsaved)
        self._gsaved = None

    # ------------------------------------------------------------------ build
    def _build(self):
        spec = self.spec
        saved = (Asset._id_counter, System._instance)
        Asset._id_counter = spec.get('id_offset', 0)
        rm = ResourceManager()
        for r, amt in sorted(spec.get('pools', {}).items()):
            rm.add_resources(r, amt)
        self.system = System(resource_manager=rm)
        self.env = self.system.env
        self.dev = {}
        self.groups = {}
        self.maintainer = None
        self.nsrc = 0
        for d in spec['devices']:
            self.make_device(d)
        self.apply_rewire()
        self.n_static = Asset._id_counter
        # observers around every give_part
        for a in self.system._assets:
            if isinstance(a, PartFlowController):
                a.give_part = GiveWrap(self.hub, a)
        self.id_counter = Asset._id_counter
        Asset._id_counter, System._instance = saved

    def make_device(self, d):
        '''Creates ONE real device from its spec entry (at build time, or while running: C20).'''
        spec = self.spec
        k = d['kind']
        name = d['name']
        up = [self.dev[u] for u in d.get('up_init', d.get('up', []))]
        cyc0 = 0 if d.get('cycle_prop') else d.get('cycle', 0)
        if k == 'source':
            self.nsrc += 1
            gen = HPartGen(name, 1000 * self.nsrc, **d.get('gen', {}))
            b = d.get('budget')
            o = Source(name, gen, d.get('cycle', 0), INF if b is None else b)
        elif k == 'handler':
            o = PartHandler(name, up, cyc0, d.get('value', 0))
        elif k == 'processor':
            o = HProcessor(name, up, cyc0, d.get('value', 0),
                           d.get('resources'), wo={t: tuple(v) for t, v in d.get('wo', {}).items()})
            o.hub = self.hub
            if d.get('slow'):
                o.slow_factor = d['slow']
        elif k == 'buffer':
            o = Buffer(name, up, d.get('delay', 0), d.get('capacity'), d.get('value', 0))
        elif k == 'gate':
            o = DecisionGate(name, up, DECIDERS[d.get('decider', 'all')])
        elif k == 'flow':
            o = PartFlowController(d.get('asset_name', name), up)
            o._hkey = name           # the harness's own name for the object (two assets may carry the same user-given name)
        elif k == 'batcher':
            o = PartBatcher(name, up, d.get('value', 0), d.get('size'))
        elif k == 'sink':
            o = Sink(name, up, cyc0, d.get('collect', True))
        elif k == 'group':
            members = [self.dev[m] for m in d['members']]
            g = Group(name, members,
                      [self.dev[m] for m in d['inputs']] if d.get('inputs') else None,
                      [self.dev[m] for m in d['outputs']] if d.get('outputs') else None)
            members.clear()                  # the caller re-uses its list: no effect allowed
            self.groups[name] = g
            return g
        elif k == 'path':
            o = self.groups[d['group']].get_new_group_path(name, up)
        elif k == 'maintainer':
            c = d.get('capacity')
            o = Maintainer(d.get('asset_name', name), INF if c is None else c, d.get('value', 0))
            if not d.get('spare'):
                self.maintainer = o
        elif k == 'leased':
            # an asset that is transitory by construction (not registered automatically) and registered by hand
            o = Asset(name, d.get('value', 0), True)
            System.add_asset(o)
        elif k in ('obj', 'scheduler', 'psensor', 'osensor', 'cms'):
            o = self.make_aux(d)
        else:
            raise HarnessError(f'unknown device kind {k}')
        if d.get('cycle_prop') and isinstance(o, PartHandler):
            # the constant cycle time is configured through the public property after construction (the constructor got 0)
            o.cycle_time = d.get('cycle', 0)
        self.dev[name] = o
        up.clear()                           # the caller re-uses the list it passed as upstream: no effect allowed
        if d.get('blocked'):
            o.block_input = True
        if isinstance(o, PartHandler):
            if d.get('pre_offset'):
                o.offset_next_cycle_time(d['pre_offset'])     # requested right after construction (before the first run)
            if d.get('cycles') or d.get('offsets'):
                o.add_receive_part_callback(CycleByOrdinal(d.get('cycles'), d.get('offsets')))
            o.add_receive_part_callback(self.hub.on_receive)
            if d.get('recv_dv'):
                o.add_receive_part_callback(AddValue(d['recv_dv'], 0))     # the part is marked down / up on receipt
        if isinstance(o, PartProcessor):
            if d.get('dv') or d.get('dq'):
                o.add_finish_processing_callback(AddValue(d.get('dv', 0), d.get('dq', 0)))
            o.add_finish_processing_callback(self.hub.on_finish)
            o.add_shutdown_callback(self.hub.on_shutdown)
            o.add_restored_callback(self.hub.on_restored)
            for n in range(self.spec.get('probes', 0)):
                p = Probe3(self.hub, n)
                o.add_shutdown_callback(p.shutdown)
                o.add_restored_callback(p.restored)
            if d.get('auto_repair') is not None:
                o.add_shutdown_callback(AutoRepair(self.dev, self.hub, d['auto_repair']))
            if d.get('instant_repair'):
                o.add_shutdown_callback(InstantRepair())
            if d.get('retry_repair'):
                o.add_shutdown_callback(RetryRepair())
        return o

    def make_aux(self, d):
        '''Schedulers, sensors, CMS and plain objects (also used for assets created while running, C20).'''
        k, name = d['kind'], d['name']
        if k == 'obj':
            return SchedObj(name)
        if k == 'scheduler':
            mine = [tuple(x) for x in d['schedule']]
            o = HScheduler(mine, name, d.get('cyclical', True), hub=self.hub)
            mine.append((1, 'appended by the caller afterwards'))      # the caller re-uses its list: no effect allowed
            mine[0] = (99, 'edited by the caller afterwards')
            for tgt, mode in d.get('targets', []):
                if mode == 'creator':
                    o.register_object(self.dev[tgt], CreatorAction(self, d['creates']))
                else:
                    o.register_object(self.dev[tgt], None if mode == 'default' else OverrideAction(self.hub))
            return o
        if k in ('psensor', 'osensor'):
            cap = d.get('data_capacity')
            cap = INF if cap is None else cap
            if k == 'psensor':
                probes = [AttributeProbe(attr, self.dev[tgt]) for tgt, attr in d['probes']]
                o = PeriodicSensor(d['interval'], probes, d.get('asset_name', name), cap, d.get('value', 0))
            else:
                # the placeholder target of a part probe is replaced by the finished part at every measurement
                ph = self.dev[d['processor']] if d.get('placeholder') == 'processor' else None
                probes = [AttributeProbe(attr, ph) for attr in d['probes']]
                o = OutputPartSensor(self.dev[d['processor']], probes, d.get('sensing_interval', 0), name, cap, d.get('value', 0))
                if d.get('post_dq') is not None:
                    self.dev[d['processor']].add_finish_processing_callback(AddValue(0, d['post_dq']))
            for n in range(d.get('callbacks', 1)):
                o.add_on_sense_callback(SenseCallback(self.hub, n, name))
            return o
        if k == 'cms':
            o = HCms(self.maintainer, name, d.get('value', 0), hub=self.hub, devs=self.dev)
            for sname in d.get('sensors', []):          # a name listed twice = add_sensor called twice
                o.add_sensor(self.dev[sname])
            # further on-sense callbacks registered with a sensor AFTER the CMS subscribed to it: registration order is
            # callbacks made with the sensor, the CMS, then these
            for sname, m in sorted(d.get('late_callbacks', {}).items()):
                base = next(x for x in self.spec['devices'] + list(self.spec.get('late', [])) if x['name'] == sname).get('callbacks', 1)
                for j in range(m):
                    self.dev[sname].add_on_sense_callback(SenseCallback(self.hub, base + j, sname))
            return o
        raise HarnessError(f'unknown auxiliary kind {k}')

    def apply_rewire(self):
        '''Connections that close a cycle in the graph cannot be given to constructors: a device with 'up_init' is
        built with that list and re-wired to its final 'up' list once every device exists.'''
        for d in self.spec['devices']:
            if 'up_init' in d:
                lst = [self.dev[u] for u in d['up']]
                self.dev[d['name']].set_upstream(lst)
                lst.clear()

    def _init_like_simulate(self):
        '''Exactly what System.simulate()/Environment.run() do before the loop.'''
        s = self.system
        s.resource_manager.initialize(s._env)
        s._initialize_assets()
        s._simulation_is_initialized = True
        env = s._env
        env._terminated = False
        env._trace = False
        env.schedule_event(env.now + self.horizon, -1, env._terminate, EventType.TERMINATE)

    def fork(self):
        '''Independent copy of the whole world (used by monitors that probe "what if").'''
        from .explorer import snapshot
        step = self.env.__dict__.pop('step', None)     # E2 instance override is a closure
        try:
            return snapshot(self)
        finally:
            if step is not None:
                self.env.step = step

    def recipe(self):
        '''How to build an equal world from scratch (mc.explorer.ReplaySnap: fallback when the world cannot be pickled).'''
        from .explorer import ReplaySnap
        spec, recs, mode = self.spec, list(self.mon_recipe), self.mode

        def args():
            from .linejobs import make_monitors
            return (spec, make_monitors(recs))
        return ReplaySnap(LineWorld, args, {'mode': mode}, self.trail)

    # ------------------------------------------------------------------ protocol
    def digest(self):
        return canon.digest(self)

    def done(self):
        return self.env._terminated and not self.between

    def sources(self):
        return [d for d in self.dev.values() if isinstance(d, Source)]

    def flow_devices(self):
        return [a for a in self.system._assets if isinstance(a, PartFlowController)]

    def _head_for_ops(self):
        '''The event relative to which injection positions are computed.  When the scenario allows splitting the
        run, TERMINATE events are ignored (the real first run carries its own TERMINATE instead of the horizon's).'''
        evs = self.env._events
        if not self.spec.get('splits'):
            return evs[0] if evs else None
        for e in evs:
            if e.event_type != EventType.TERMINATE:
                return e
        return None

    def op_enabled(self, op):
        '''Operations on assets that do not exist (yet) are not offered; an asset is created at most once.'''
        k = op[0]
        if k == 'create':
            for i in op[1:]:
                d = self.spec['late'][i]
                if d['name'] in self.dev:
                    return False
            return True
        if k == 'reginline':
            return op[1] in self.dev
        if k in ('reg', 'unreg', 'addsensor'):
            return op[1] in self.dev and op[2] in self.dev
        if k in ('addres', 'cleardata', 'abort'):
            return True
        if k == 'upstream':
            return op[1] in self.dev and all(u in self.dev for u in op[2])
        if k == 'upstream_edit':
            if op[1] not in self.dev or not all(u in self.dev for u in list(op[2]) + list(op[3])):
                return False
            cur = [u.name for u in self.dev[op[1]].upstream]
            return all(u in cur for u in op[2]) and not any(u in cur for u in op[3])
        return op[1] in self.dev

    def _op_labels(self, positions, kind='op'):
        labels = []
        first = self.spec.get('first_op')
        fpos = self.spec.get('first_pos')
        fresh = first is not None and not any(self.used)
        if fresh and fpos is not None and kind == 'op':
            positions = [p for p in positions if p == fpos]     # ... injected at position `first_pos`
        for i in range(len(self.ops)):
            if fresh and i != first:
                continue       # this job covers the executions whose FIRST injected operation is `first`
            lim = self.op_limits[i]
            if lim is not None and self.used[i] >= lim:
                continue
            if not self.op_enabled(self.ops[i]):
                continue
            for p in positions:
                labels.append((kind, i, p) if p is not None else (kind, i))
        return labels

    def menu(self):
        env = self.env
        if self.between:
            # between two runs: operations are plain calls (no event), then the next run starts
            labels = [('resume',)]
            if self.budget > 0:
                labels += self._op_labels([None], 'xop')
            self.last_tie_size = 0
            return labels
        tg = canon.tie_group(env)
        self.last_tie_size = len(tg)
        labels = []
        seen = set()
        for e in tg:
            k = repr(canon.event_key(e))
            if k not in seen:
                seen.add(k)
                labels.append(('ev', k))
        head = self._head_for_ops()
        if self.budget > 0 and tg and head is not None and (head is tg[0] or not self.spec.get('splits')):
            pos = ['pre', 'hi']
            if tg[0].time > env.now:
                pos += ['end', 'mid']
            pos = [p for p in pos if p in self.positions]
            labels += self._op_labels(pos)
        if self.splits_left > 0 and tg and tg[0].time > env.now:
            # (also when only the horizon's TERMINATE is left: the model has gone quiet)
            # the run may end here: strictly between two instants, or as the last thing of the current instant
            labels.append(('split', 'mid'))
            if env.now > 0 or self.steps > 0:
                labels.append(('split', 'end'))
        return labels

    def apply(self, label):
        label = tuple(label)
        env = self.env
        self.facts = []
        self.trail.append(label)
        self._enter()
        try:
            if not self.started:
                self.started = True
                for m in self.monitors:
                    m.start(self)
            if label[0] == 'resume':
                if not self.between:
                    raise HarnessError('resume while a run is in progress')
                self.between = False
                if self.mode == 'e1':
                    env._terminated = False       # what Environment.run does first (the horizon TERMINATE is queued already)
                self.facts.append('run_resumed')
                for m in self.monitors:
                    m.resumed(self)
                if not env._events or self._head_for_ops() is None or self._head_for_ops().time > env.now:
                    for m in self.monitors:
                        m.quiescent(self)       # the clock is about to advance right after the new run starts
                return
            if label[0] == 'xop':
                if not self.between:
                    raise HarnessError('xop while a run is in progress')
                i = label[1]
                ev = Event(env.now, HARNESS_ID, OpAction(self, i), EventType.OTHER_LOW_PRIORITY, 'between runs')
                ev.detached = True
                self.budget -= 1
                self.used[i] += 1
                self.facts.append('xop:' + self.ops[i][0])
                self.hub.begin(ev.asset_id)
                for m in self.monitors:
                    m.before(self, label, ev)
                self.steps += 1
                ev.execute()
                for m in self.monitors:
                    m.after(self, label, ev)
                return
            if label[0] == 'split':
                head = self._head_for_ops()
                # nothing but TERMINATE left: the model has gone quiet, the next "event" is the end of the horizon
                nxt = min(head.time, self.horizon) if head is not None else self.horizon
                if not nxt > env.now:
                    raise HarnessError('split not enabled')
                for m in self.monitors:
                    m.presplit(self)
                t = (env.now + nxt) / 2 if label[1] == 'mid' else env.now
                if self.mode == 'e1':
                    env.schedule_event(t, -1, env._terminate, EventType.TERMINATE)
                ev = env._events[0]
                if ev.time != t or ev.event_type != EventType.TERMINATE:
                    raise HarnessError(f'split: head of the queue is {ev} but the run should end at {t}')
                self.splits_left -= 1
                self.between = True
                self.facts.append('split:' + label[1])
            elif label[0] == 'ev':
                ev = None
                tg = canon.tie_group(env)
                for e in tg:
                    if repr(canon.event_key(e)) == label[1]:
                        ev = e
                        break
                if ev is None:
                    raise HarnessError(f'{self.spec["name"]}: event {label[1]} not in tie group '
                                       f'{[repr(canon.event_key(e)) for e in tg]}')
                if len(tg) > 1:
                    self.facts.append('tie_choice')
            elif label[0] == 'op':
                _, i, pos = label
                head = self._head_for_ops()
                if pos == 'pre':
                    t, prio = head.time, head.event_type
                elif pos == 'end':
                    t, prio = env.now, EventType.TERMINATE + 0.5
                elif pos == 'mid':
                    # strictly between now and the next instant (the end of the horizon if that comes first)
                    t, prio = (env.now + min(head.time, self.horizon)) / 2, EventType.OTHER_LOW_PRIORITY
                elif pos == 'hi':
                    # a documented fractional custom priority just above the head's: the library itself must order it first
                    t, prio = head.time, float(head.event_type) + 0.5
                else:
                    raise HarnessError(f'bad position {pos}')
                if pos not in ('pre', 'hi') and not head.time > env.now:
                    raise HarnessError('position not enabled')
                act = OpAction(self, i)
                env.schedule_event(t, HARNESS_ID, act, prio, 'harness')
                ev = next(e for e in env._events if e.action is act)
                if pos == 'hi' and (env._events[0] is not ev or len(canon.tie_group(env)) != 1):
                    raise Violation('priority_order', f'an event scheduled at t={t} with priority {prio} is not ahead of the '
                                                      f'event with priority {float(head.event_type)} due at the same time '
                                                      f'(queue head: {canon.event_key(env._events[0])[:4]})')
                self.budget -= 1
                self.used[i] += 1
                self.facts.append('op:' + self.ops[i][0])
            else:
                raise HarnessError(f'unknown label {label}')
            # always-on step check (C01 in situ): the tie group taken from the head of the library's queue must be the
            # true minimum of ALL pending events by (time, -priority); the clock follows the executed event
            if env._events:
                m_ = min((e.time, -float(e.event_type)) for e in env._events)
                if (ev.time, -float(ev.event_type)) != m_:
                    raise Violation('dispatch_order', f'event due at t={ev.time} priority {float(ev.event_type)} offered for dispatch '
                                                      f'while an event with (time, -priority)={m_} is pending')
            t_before = env.now
            # move the chosen event to the front of its tie group and run the REAL step
            env._events.remove(ev)
            ev.random_weight = -1.0
            env._events.insert(0, ev)
            self.hub.begin(ev.asset_id)
            for m in self.monitors:
                m.before(self, label, ev)
            self.steps += 1
            if ev.time > env.now:
                self.instant_steps = 0
            self.instant_steps += 1
            if self.instant_steps > self.spec.get('instant_cap', 300):
                raise Violation('termination', f'{self.instant_steps} events executed at t={env.now} without the clock advancing: '
                                               f'the run does not return (last event {canon.event_key(ev)[3]})')
            if self.dispatched is not None:
                f = ev.action
                self.dispatched.append((ev.time, ev.asset_id,
                                        getattr(f, '__name__', None) or getattr(getattr(f, 'func', None), '__name__', '?'),
                                        float(ev.event_type)))
            aborted = None
            try:
                with _EventWatchdog(ev):
                    Environment.step(env)
            except AbortRun as e:
                # a user callback raised: the real run loop unwinds (E2: re-raised below, after the bookkeeping that E1
                # does as well); no further event of this run is dispatched
                aborted = e
                env._terminated = True
                self.facts.append('run_aborted_by_exception')
            if env.now != ev.time or env.now < t_before:
                raise Violation('clock', f'clock {t_before} -> {env.now} after executing an event due at {ev.time}')
            if not ev.cancelled and not ev.executed and aborted is None:
                raise Violation('not_executed', f'dispatched event {canon.event_key(ev)[3]} did not run')
            for m in self.monitors:
                m.after(self, label, ev)
            if env._terminated or not env._events or env._events[0].time > env.now:
                for m in self.monitors:
                    m.quiescent(self)
            if aborted is not None and self.mode == 'e2':
                raise aborted
        finally:
            self._leave()

    def executed_op(self, ev):
        '''The harness operation (injected or scripted) carried by an event, or None.'''
        a = ev.action
        return self.ops[a.idx] if isinstance(a, OpAction) else None

    def final(self):
        self._enter()
        try:
            for m in self.monitors:
                m.final(self)
        finally:
            self._leave()

    # ------------------------------------------------------------------ ops
    def run_op(self, i, direct=False):
        op = tuple(i) if direct else self.ops[i]
        k = op[0]
        env = self.env
        hub = self.hub
        if k == 'fail':
            m = self.dev[op[1]]
            busy = m._part is not None
            m.schedule_failure(env.now + op[2], 'injected')
            self.facts.append('fault_on_busy' if busy else 'fault_on_idle')
            if not m.is_operational():
                self.facts.append('fault_while_down')
        elif k == 'shutdown':
            self.dev[op[1]].shutdown()
        elif k == 'restore':
            self.dev[op[1]].restore_functionality()
        elif k == 'wo':
            tgt = self.dev[op[1]]
            r = self.maintainer.create_work_order(tgt, op[2])
            hub.tlog.append(('wo_request', tgt.name, op[2], bool(r), self.maintainer.name))
        elif k == 'block':
            self.dev[op[1]].block_input = bool(op[2])
        elif k == 'addres':
            try:
                env.resource_manager.add_resources(op[1], op[2])
                hub.tlog.append(('addres', op[1], op[2], True))
            except ValueError:
                hub.tlog.append(('addres', op[1], op[2], False))
        elif k == 'adjust':
            self.dev[op[1]].adjust_part_count(op[2])
            hub.tlog.append(('adjust', op[1], op[2]))
        elif k == 'upstream':
            lst = [self.dev[u] for u in op[2]]
            self.dev[op[1]].set_upstream(lst)
            lst.clear()                      # the caller re-uses its list
            hub.tlog.append(('upstream', op[1], tuple(op[2])))
        elif k == 'upstream_edit':
            # the usual idiom: take the list the getter returns, edit it in place, hand it back
            d_ = self.dev[op[1]]
            lst = d_.upstream
            for u in op[2]:
                lst.remove(self.dev[u])
            for u in op[3]:
                lst.append(self.dev[u])
            names = tuple(x.name for x in lst)
            d_.set_upstream(lst)
            lst.clear()
            hub.tlog.append(('upstream', op[1], names))
        elif k == 'offset':
            self.dev[op[1]].offset_next_cycle_time(op[2])      # a one-shot offset requested from outside, at any moment
        elif k == 'cycle':
            self.dev[op[1]].cycle_time = op[2]
        elif k == 'reg':
            r = self.dev[op[1]].register_object(self.dev[op[2]], None if op[3] == 'default' else OverrideAction(hub))
            hub.tlog.append(('reg', op[1], op[2], op[3], bool(r)))
        elif k == 'reginline':
            # an object registered on the spot: the scheduler holds the only reference to it
            r = self.dev[op[1]].register_object(SchedObj(op[2]), None)
            hub.tlog.append(('reg', op[1], op[2], 'default', bool(r)))
        elif k == 'unreg':
            r = self.dev[op[1]].unregister_object(self.dev[op[2]])
            hub.tlog.append(('unreg', op[1], op[2], bool(r)))
        elif k == 'create':
            # assets created while the simulation is running / between two runs (C20)
            for i in op[1:]:
                d = self.spec['late'][i]
                o = self.make_device(d)
                if isinstance(o, PartFlowController):
                    for a in self.system._assets:
                        if isinstance(a, PartFlowController) and not isinstance(a.__dict__.get('give_part'), GiveWrap):
                            a.give_part = GiveWrap(hub, a)
                hub.tlog.append(('created', d['name'], d['kind'], env.now))
                for m in self.monitors:
                    m.created(self, d, env.now)
        elif k == 'requal':
            d_ = self.dev[op[1]]
            it = d_._output if d_._output is not None else d_._part
            if it is not None:
                it.quality = op[2]           # the waiting part is re-graded (e.g. an inspection result)
                hub.tlog.append(('requal', op[1], it.id, op[2]))
        elif k == 'revalue':
            # user code books value on the item waiting in / being worked on by a device (holding cost, rework credit)
            d_ = self.dev[op[1]]
            it = d_._output if d_._output is not None else d_._part
            if it is not None:
                for p_ in leaf_parts(it):
                    p_.add_value('holding', op[2])
                hub.tlog.append(('revalue', op[1], it.id, op[2]))
        elif k == 'addvalue':
            self.dev[op[1]].add_value('booking', op[2])
            hub.tlog.append(('addvalue', op[1], op[2]))
        elif k == 'addsensor':
            self.dev[op[1]].add_sensor(self.dev[op[2]])      # registering a sensor again must change nothing
            hub.tlog.append(('addsensor', op[1], op[2]))
        elif k == 'cleardata':
            # the user discards the data recorded so far (warm-up) through the public dictionary
            self.system.simulation_data.clear()
            hub.tlog.append(('cleardata',))
        elif k == 'abort':
            raise AbortRun('scripted failure of a user callback')
        elif k == 'sense':
            self.dev[op[1]].sense()          # a measurement taken by hand through the public method
            hub.tlog.append(('manual_sense', op[1]))
        elif k == 'bump':
            o = self.dev[op[1]]
            o.x[0] += 1           # in place: a sensor that stored a reference instead of a copy is exposed
            o.n += 1
            o.r.v += 1
            o.m = o.n if o.m is None else None
        else:
            raise HarnessError(f'unknown op {op}')


class Monitor:
    '''Base class; monitors live inside the world (pickled and digested with it).'''
    prop = ''

    def attach(self, w):
        pass

    def start(self, w):
        pass

    def before(self, w, label, ev):
        pass

    def after(self, w, label, ev):
        pass

    def quiescent(self, w):
        pass

    def final(self, w):
        pass

    def created(self, w, d, t0):
        '''An asset described by spec entry d was created at time t0 while running.'''
        pass

    def resumed(self, w):
        '''A new run has just been started after a split.'''
        pass

    def presplit(self, w):
        '''The run is about to be split here (nothing has been touched yet).'''
        pass


# --------------------------------------------------------------------------- E2

class _PrefixDone(Exception):
    pass


def _check_trace(w, home, run_no):
    '''C15, trace clause: the exported file lists exactly the events dispatched so far (all traced runs), in order.'''
    import json
    import os
    f = os.path.join(home, 'Downloads', f'{w.env.name}_trace.json')
    if not os.path.exists(f):
        raise Violation('trace', f'run {run_no}: trace enabled but no file was exported')
    with open(f) as fp:
        text = fp.read()
    try:
        tr = json.loads(text)
        keys = sorted(tr, key=int)
    except (ValueError, TypeError) as e:
        raise Violation('trace', f'run {run_no}: the exported trace is not a JSON object indexed by event number '
                                 f'({len(text)} characters, {type(e).__name__}: {str(e)[:80]})')
    if [int(k) for k in keys] != list(range(len(keys))):
        raise Violation('trace', f'run {run_no}: trace indices are not 0..n-1: {keys[:10]}...')
    got = [(tr[k]['time'], tr[k]['asset_id'], tr[k]['action'], float(tr[k]['event_type'])) for k in keys]
    want = [tuple(x) for x in w.dispatched]
    if got != want:
        i = next((j for j, (a, b) in enumerate(zip(got, want)) if a != b), min(len(got), len(want)))
        raise Violation('trace', f'run {run_no}: exported trace has {len(got)} entries, {len(want)} events were dispatched; '
                                 f'first difference at index {i}: trace {got[i] if i < len(got) else None} vs '
                                 f'dispatched {want[i] if i < len(want) else None}')


def run_e2(spec, monitor_factory, path, prefix_ok=False, trace=False, lenient=False, norm_split=False):
    '''Replay a choice list through the REAL System.simulate() -- several consecutive calls when the path splits
    the run.  Returns the final digest (hex).  Violations propagate as mc.Violation; a path that does not fit the
    run is a HarnessError.'''
    from .explorer import _Quiet
    path = [tuple(x) for x in path]
    seg_ends = []
    if any(l[0] == 'split' for l in path):
        # dry linear pass (no forking) only to learn WHEN each run ends; the verdict comes from the real pass
        w0 = LineWorld(spec, monitor_factory(), mode='e1')
        with _Quiet():
            for l in path:
                try:
                    w0.apply(l)
                except HarnessError:
                    raise
                except Exception:
                    break
                if l[0] == 'split':
                    seg_ends.append(w0.env.now)
    w = LineWorld(spec, monitor_factory(), mode='e2')
    it = iter(path)
    state = {'n': 0}

    def take():
        try:
            label = next(it)
        except StopIteration:
            if prefix_ok:
                raise _PrefixDone()
            raise HarnessError('replay: run wants more steps than the recorded path has')
        state['n'] += 1
        return label

    def do(label):
        try:
            w.apply(label)
        except BaseException as e:
            if not hasattr(e, 'mc_steps'):
                e.mc_steps = state['n']
            raise

    pushback = []

    def shim():
        h = w.env._events[0] if w.env._events else None
        if h is not None and h.event_type == EventType.TERMINATE and h.asset_id == -1 and 't_end' in state \
                and h.time != state['t_end'] and not lenient:
            v = Violation('run_end', f'simulate({state["t_end"] - state["t_start"]}) started at t={state["t_start"]} scheduled its end '
                                     f'at t={h.time}, expected {state["t_end"]}')
            v.mc_steps = state['n']
            raise v
        label = pushback.pop() if pushback else take()
        if label[0] in ('xop', 'resume'):
            raise HarnessError(f'replay: {label} recorded while the real run is still in progress')
        if lenient and label[0] == 'ev':
            # regression artefacts must survive benign changes of the library (an extra event at the same instant):
            # if the recorded event is not dispatchable yet, dispatch what is (canonical order) and try again
            keys = [repr(canon.event_key(e)) for e in canon.tie_group(w.env)]
            if label[1] not in keys:
                t = float(eval(label[1])[0])
                if w.env._events and w.env._events[0].time <= t and state.get('skips', 0) < 200:
                    state['skips'] = state.get('skips', 0) + 1
                    pushback.append(label)
                    do(('ev', sorted(keys)[0]))
                    return
                do(('ev', sorted(keys)[0]))       # the recorded event no longer exists: drop it
                return
        do(label)

    saved = (Asset._id_counter, System._instance)
    Asset._id_counter = w.id_counter
    System._instance = w.system
    gs = globalstate.enter(w.gvals)
    _CURRENT_HUB[0] = w.hub
    saved_rr = random.random
    random.random = w._next_weight
    w.env.step = shim
    home = old_home = None
    if trace:
        import os
        import tempfile
        home = tempfile.mkdtemp(prefix='mc_home_')
        os.makedirs(os.path.join(home, 'Downloads'))
        old_home = os.environ.get('HOME')
        os.environ['HOME'] = home
        w.dispatched = []
    try:
        with _Quiet():
            try:
                t_prev = 0
                ends = list(seg_ends) + [w.horizon]
                for k, t_end in enumerate(ends):
                    state['t_start'], state['t_end'] = t_prev, t_end
                    try:
                        w.system.simulate(t_end - t_prev, trace=trace, print_summary=False)
                    except AbortRun:
                        # the scripted failing callback: the exception must reach the caller, and the trace exported by
                        # the run loop's finally clause must list every dispatched event including the failing one
                        if trace:
                            state['n'] = max(state['n'], 1)
                            try:
                                _check_trace(w, home, k)
                            except Violation as v:
                                v.mc_steps = state['n']
                                raise
                        if list(it):
                            raise HarnessError('replay: recorded steps left after the run was aborted')
                        break
                    if trace:
                        state['n'] = max(state['n'], 1)
                        try:
                            _check_trace(w, home, k)
                        except Violation as v:
                            v.mc_steps = state['n']
                            raise
                    if w.env.now != t_end:
                        v = Violation('run_end', f'simulate({t_end - t_prev}) started at t={t_prev} returned with the clock at '
                                                 f'{w.env.now}, expected {t_end} (run {k + 1} of {len(ends)})')
                        v.mc_steps = state['n']
                        raise v
                    t_prev = t_end
                    if k == len(ends) - 1:
                        break
                    if not w.between:
                        # the real run() returned without its end ever being dispatched through step()
                        due = [e for e in w.env._events if e.time <= t_end and e.event_type != EventType.TERMINATE]
                        if not due:
                            # nothing was skipped: an implementation may legitimately end a run without a TERMINATE
                            # event; this harness cannot follow it (not a verdict)
                            raise HarnessError('replay: a run ended although the path did not split it here')
                        v = Violation('run_end', f'simulate({t_end - t_prev}) started at t={t_prev} returned without dispatching '
                                                 f'the events of that run ({len(due)} event(s) due no later than t={t_end} still pending)')
                        v.mc_steps = state['n']
                        raise v
                    while True:
                        label = take()
                        if label[0] == 'xop':
                            do(label)
                        elif label[0] == 'resume':
                            do(label)
                            break
                        else:
                            raise HarnessError(f'replay: {label} recorded between two runs')
            except _PrefixDone:
                return None
            rest = list(it)
            if rest and lenient:
                rest = []        # a regression artefact whose tail no longer exists on the repaired tree (e.g. an event storm)
            if rest:
                due = [e for e in w.env._events if e.time <= w.horizon]
                if due:
                    v = Violation('run_end', f'the run returned at t={w.env.now} although {len(due)} event(s) due no later than '
                                             f'its end t={w.horizon} were still pending (first: {canon.event_key(due[0])[:4]})')
                    v.mc_steps = state['n']
                    raise v
                raise HarnessError(f'replay: {len(rest)} recorded steps left after the run ended')
            w.final()
    finally:
        w.env.__dict__.pop('step', None)
        w.id_counter = Asset._id_counter
        Asset._id_counter, System._instance = saved
        globalstate.leave(w.gvals, gs)
        _CURRENT_HUB[0] = None
        random.random = saved_rr
        if trace:
            import os
            import shutil
            if old_home is None:
                os.environ.pop('HOME', None)
            else:
                os.environ['HOME'] = old_home
            shutil.rmtree(home, ignore_errors=True)
    if norm_split:
        # bookkeeping that legitimately differs between "one run" and "the same run split in two" (cf. monitors.SplitInv)
        w.splits_left = w.steps = w.instant_steps = 0
    return w.digest().hex()
