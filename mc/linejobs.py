'''Job kind "line": explore one line scenario with a set of monitors (E1), then
validate terminal paths through the real System.simulate() (E2).'''
from . import Violation, HarnessError
from . import runner
from .explorer import explore, _Quiet
from .line import LineWorld, run_e2

MONITORS = {}


def monitor(name):
    def deco(cls):
        MONITORS[name] = cls
        return cls
    return deco


def make_monitors(names):
    out = []
    for n in names:
        if isinstance(n, (list, tuple)):
            out.append(MONITORS[n[0]](*n[1:]))
        else:
            out.append(MONITORS[n]())
        out[-1]._recipe = n
    return out


def run_line_job(job, seed):
    spec = job['spec']
    mons = job['monitors']
    caps = dict(job.get('caps', {}))
    try:
        with _Quiet():
            w = LineWorld(spec, make_monitors(mons))
    except HarnessError:
        raise
    except Exception as e:
        if isinstance(e, Violation):
            clause, detail = e.clause, e.detail
        else:
            clause, detail = runner.classify_exception(e)
        return {'result': {'scenario': spec['name'], 'states': 1, 'transitions': 0, 'facts': {},
                           'branching_states': 0, 'max_tie_group': 0, 'distinct_final_states': 0,
                           'capped': None, 'violations': 1},
                'violations': [{'clause': clause, 'detail': 'while building/initialising: ' + detail,
                                'path': [], 'scenario': spec['name']}], 'validated': 0, 'sample': None}
    if spec.get('splits'):
        caps.setdefault('witness_labels', ('resume',))
    res = explore(w, spec['name'], seed=seed, **caps)
    validated = 0
    sample = None
    n_e2 = job.get('e2', 3)
    trace = bool(job.get('trace'))
    e2_viol = []
    pending = None
    for dg, path in list(res.terminals.items())[:n_e2]:
        try:
            d2 = run_e2(spec, lambda: make_monitors(mons), path, trace=trace)
        except Violation as v:
            # violations only the real run loop can show (event trace); reported with the path, gated like the others
            e2_viol.append({'clause': v.clause, 'detail': v.detail, 'path': [list(x) for x in path],
                            'scenario': spec['name']})
            if len(e2_viol) >= 3:
                break
            continue
        except HarnessError as he:
            sd = split_differential(spec, mons, path, trace)
            if isinstance(sd, tuple):
                e2_viol.append({'clause': sd[0], 'detail': sd[1], 'path': [list(x) for x in path], 'scenario': spec['name']})
                if len(e2_viol) >= 3:
                    break
                continue
            # no real-vs-real twin for THIS path: the error stands unless another path of the job yields a verdict
            pending = pending or he
            continue
        except Exception as e:
            if not trace:
                raise
            clause, detail = runner.classify_exception(e)
            e2_viol.append({'clause': clause, 'detail': 'with trace=True: ' + detail, 'path': [list(x) for x in path],
                            'scenario': spec['name']})
            if len(e2_viol) >= 3:
                break
            continue
        if d2 != dg:
            sd = split_differential(spec, mons, path, trace)
            if isinstance(sd, tuple):
                e2_viol.append({'clause': sd[0], 'detail': sd[1], 'path': [list(x) for x in path], 'scenario': spec['name']})
                continue
            pending = pending or HarnessError(f'{spec["name"]}: E1/E2 divergence: fork-derived final state {dg} but the real '
                                              f'simulate() reached {d2} on the same choice list')
            continue
        validated += 1
        if sample is None:
            sample = [list(x) for x in path]
    if pending is not None and not e2_viol and not res.violations:
        raise pending
    # every explored split point: the path up to 'resume' is completed linearly (first tie choice, no further
    # operation) and the whole path is replayed through real consecutive simulate() calls
    nw = nd = 0
    for wp in res.witnesses[:job.get('e2w', 150)]:
        if len(e2_viol) >= 3:
            break
        try:
            with _Quiet():
                lw = LineWorld(spec, make_monitors(mons))
                full = list(wp)
                for lab in wp:
                    lw.apply(lab)
                while not lw.done():
                    lab = [l for l in lw.menu() if l[0] == 'ev'][0]
                    lw.apply(lab)
                    full.append(lab)
                lw.final()
                dg = lw.digest().hex()
        except Violation:
            continue          # reported by the exploration itself
        sd = split_differential(spec, mons, full, trace)
        if isinstance(sd, tuple):
            e2_viol.append({'clause': sd[0], 'detail': sd[1], 'path': [list(x) for x in full], 'scenario': spec['name']})
            continue
        if sd == 'equal':
            nd += 1
        try:
            d2 = run_e2(spec, lambda: make_monitors(mons), full, trace=trace)
        except Violation as v:
            e2_viol.append({'clause': v.clause, 'detail': v.detail, 'path': [list(x) for x in full], 'scenario': spec['name']})
            continue
        if d2 != dg:
            raise HarnessError(f'{spec["name"]}: split emulation diverges from real consecutive simulate() calls on {full}')
        validated += 1
        nw += 1
    rj = res.to_json()
    rj['violations'] += len(e2_viol)
    if nw:
        rj['facts']['split_points_replayed_through_real_simulate'] = nw
    if nd:
        rj['facts']['real_split_runs_equal_to_real_single_run'] = nd
    if trace:
        rj['facts']['traced_replays'] = validated
    return {'result': rj, 'violations': res.violations + e2_viol, 'validated': validated, 'sample': sample}


def unsplit_path(path):
    '''The same choice list for ONE uninterrupted run: split/resume removed, an operation issued between the two runs
    becomes the same operation issued from an event at the split position.  None if the path has no such twin here
    (several operations between two runs: their positions depend on what the first one schedules).'''
    out = []
    i = 0
    path = [tuple(x) for x in path]
    # a run that ended strictly between two instants leaves the clock there: until the next event is dispatched, "now" of
    # the split runs is that mid time while "now" of the one uninterrupted run is still the instant before it
    displaced = False
    while i < len(path):
        lab = path[i]
        if lab[0] != 'split':
            if lab[0] == 'ev':
                displaced = False
            elif displaced and lab[0] == 'op' and lab[2] in ('end', 'mid'):
                return None      # an operation positioned relative to a clock the twin does not have ('pre' and 'hi' go by
                                 # the time of the next event, which both have)
            out.append(lab)
            i += 1
            continue
        j = i + 1
        xs = []
        while j < len(path) and path[j][0] == 'xop':
            xs.append(path[j][1])
            j += 1
        if j >= len(path) or path[j][0] != 'resume' or len(xs) > 1:
            return None
        if xs:
            if displaced or lab[1] == 'mid':
                # the operation runs at the mid time; the twin would have to run it from an event of its own at that
                # time, which the choice list does not contain: no twin here
                return None
            out.append(('op', xs[0], lab[1]))
        if lab[1] == 'mid':
            displaced = True
        i = j + 1
    return out


def split_differential(spec, mons, path, trace=False):
    '''C14 on real runs only: the choice list of `path` replayed through ONE real simulate() and through the real
    consecutive simulate() calls that `path` prescribes must end in the same state.  Returns a violation (clause,
    detail) or None (equal, or no verdict possible).'''
    if not any(l[0] == 'split' for l in path):
        return None
    up = unsplit_path(path)
    if up is None:
        return None
    mf = lambda: make_monitors(mons)
    try:
        du = run_e2(spec, mf, up, trace=trace, norm_split=True)
    except (HarnessError, Violation):
        return None              # the unsplit twin does not follow this choice list: no verdict from this oracle
    except Exception:
        return None
    try:
        ds = run_e2(spec, mf, path, trace=trace, norm_split=True)
    except Violation:
        return None              # reported by the caller's own replay
    except HarnessError as e:
        return ('split_real', 'with these tie-break choices one real simulate() call runs to the end, but the real consecutive '
                              f'simulate() calls do not follow the same choice list: {str(e)[:300]}')
    if ds != du:
        return ('split_real', 'one real simulate() call and the real consecutive simulate() calls end in different states '
                              'under the same tie-break choices')
    return 'equal'


def replay_line(job, path, lenient=False):
    '''E2 replay of a (possibly violating) path.  Returns {'clause','detail','step'} or {'final': digest}.'''
    spec = job['spec']
    mons = job['monitors']
    steps = {'n': 0}
    try:
        w = None
        dg = run_e2(spec, lambda: make_monitors(mons), [tuple(x) for x in path], prefix_ok=True,
                    trace=bool(job.get('trace')), lenient=lenient)
        if lenient:
            return {'final': dg}
        if any((m[0] if isinstance(m, (list, tuple)) else m) == 'splitinv' for m in mons):
            # the split-invariance comparison forks E1 worlds, so it is re-derived by a linear (fork-free) E1 replay;
            # the E1 emulation of a split itself is validated against real consecutive simulate() calls above
            w = LineWorld(spec, make_monitors(mons))
            n = 0
            with _Quiet():
                for lab in path:
                    n += 1
                    try:
                        w.apply(tuple(lab))
                    except Violation as v:
                        return {'clause': v.clause, 'detail': v.detail, 'step': n}
        sd = split_differential(spec, mons, [tuple(x) for x in path], bool(job.get('trace')))
        if isinstance(sd, tuple):
            return {'clause': sd[0], 'detail': sd[1], 'step': len(path)}
        return {'final': dg}
    except Violation as v:
        return {'clause': v.clause, 'detail': v.detail, 'step': getattr(v, 'mc_steps', 0)}
    except HarnessError:
        if not lenient:
            sd = split_differential(spec, mons, [tuple(x) for x in path], bool(job.get('trace')))
            if isinstance(sd, tuple):
                return {'clause': sd[0], 'detail': sd[1], 'step': len(path)}
        raise
    except Exception as e:
        clause, detail = runner.classify_exception(e)
        return {'clause': clause, 'detail': detail, 'step': getattr(e, 'mc_steps', 0)}


runner.register('line', run_line_job, replay_line)


def line_job(spec, monitors, e2=3, trace=False, **caps):
    return {'kind': 'line', 'name': spec['name'], 'spec': spec, 'monitors': list(monitors), 'e2': e2,
            'caps': caps, 'trace': trace}


def run_conformance_job(job, seed):
    '''One linear run of a (long-horizon) scenario under a deterministic tie policy: NOT exhaustive, labelled as a
    conformance run in the evidence.  Policy "first"/"last": the first/last member of every tie group in canonical order.'''
    import time as _t
    spec = job['spec']
    t0 = _t.time()
    viol = []
    steps = 0
    with _Quiet():
        w = LineWorld(spec, make_monitors(job['monitors']))
        path = []
        try:
            while not w.done():
                labels = [l for l in w.menu() if l[0] == 'ev']
                lab = labels[0] if job['policy'] == 'first' else labels[-1]
                w.apply(lab)
                steps += 1
            w.final()
        except Violation as v:
            viol.append({'clause': v.clause, 'detail': v.detail, 'path': [['policy', job['policy']]], 'scenario': job['name']})
    res = {'scenario': job['name'], 'states': steps + 1, 'transitions': steps, 'branching_states': 0, 'max_menu': 0,
           'max_tie_group': 0, 'distinct_final_states': 1, 'max_depth': steps, 'violations': len(viol),
           'facts': {'conformance_run_not_exhaustive': 1}, 'capped': None, 'wall_s': round(_t.time() - t0, 3)}
    return {'result': res, 'violations': viol, 'validated': 0, 'sample': None}


def replay_conformance(job, path):
    out = run_conformance_job(job, 0)
    if out['violations']:
        v = out['violations'][0]
        return {'clause': v['clause'], 'detail': v['detail'], 'step': 1}
    return {'final': 'ok'}


runner.register('lineconf', run_conformance_job, replay_conformance)


def conformance_job(spec, monitors, policy):
    return {'kind': 'lineconf', 'name': f'{spec["name"]}/policy={policy}', 'spec': spec, 'monitors': list(monitors),
            'policy': policy}
