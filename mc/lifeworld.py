'''Component world for the registry clauses of C20: System creation, asset creation of every kind
before the first run / between runs, simulate() on the newest and on stale systems, look-up.

Operations:
  ('newsys',)          System()                       (at most `max_sys`)
  ('create', kind)     one asset of that kind, registered by its own constructor with whatever system is active
  ('simulate', i, d)   systems[i].simulate(d)          (RuntimeError expected unless i is the newest)
  ('smt',)             System.simulate_multiple_times(f, 1, 0): one more System is created (inside the call) and simulated
                       in this process; it is the most recently created one afterwards
  ('readd',)           newest.add_asset(x) for an asset x that is registered with it already (must change nothing)
Reference: the list of assets each system should know, in creation order; an initialisation counter per asset fed by
the logging wrapper around Asset.initialize (mc/line.py).
'''
import random

from . import Violation, HarnessError
from . import canon, globalstate
from .comp import CompWorld, world
from . import line as L

from simprocesd.model import System
from simprocesd.model.factory_floor import (Asset, PartHandler, PartProcessor, Source, Buffer, Sink, DecisionGate,
                                            PartBatcher, Maintainer)
from simprocesd.model.factory_floor.action_scheduler import ActionScheduler
from simprocesd.model.sensors import PeriodicSensor, AttributeProbe
from simprocesd.model.sensors.part_sensor import OutputPartSensor
from simprocesd.model.cms.cms import Cms

KINDS = ['source', 'handler', 'processor', 'buffer', 'gate', 'batcher', 'sink', 'maintainer', 'scheduler',
         'psensor', 'osensor', 'cms', 'nested']


class NestedProc(PartProcessor):
    '''A user subclass whose constructor builds another asset (a machine that comes with its own sensor): the inner asset
    gets the LARGER id but is registered FIRST (registration happens when a constructor returns).'''

    def __init__(self, name, target):
        super().__init__(name, None, 1)
        self.own_sensor = PeriodicSensor(1, [AttributeProbe('v', target)], name + '_sensor', 2)


class SubSystem(System):
    '''A user subclass of System (same behaviour).'''


_SMT_NAME = ['smt_sink']


def _smt_fn(system, index):
    Sink(_SMT_NAME[0], None)
    system.simulate(1, print_summary=False)


class _Hub:
    _canon_skip = ('tlog',)

    def __init__(self):
        self.tlog = []


class _Target:
    def __init__(self):
        self.v = 1


@world('life')
class LifeWorld(CompWorld):
    _canon_skip = CompWorld._canon_skip + ('kinds', 'durations', 'max_sys')

    def __init__(self, params):
        super().__init__(params)
        self.kinds = params.get('kinds', KINDS)
        self.durations = params.get('durations', [1, 1.5])
        self.max_sys = params.get('max_sys', 2)
        self.systems = []
        self.ref = []            # per system: list of asset names in creation order
        self.inits = {}          # asset name -> number of initialisations
        self.count = 0
        self.id_counter = params.get('id_offset', 0)
        self.instance = None     # what System._instance is for this world
        self.hub = _Hub()
        self.gvals = globalstate.fresh()
        self.tgt = _Target()
        for _ in range(params.get('presys', 0)):
            self.budget += 1
            self.nops -= 1
            self.apply(('newsys',))
        self.trail = []          # operations of the fixed start state are not part of the recipe

    def menu(self):
        out = []
        if len(self.systems) < self.max_sys:
            out.append(('newsys',))
            out.append(('newsubsys',))
        for k in self.kinds:
            out.append(('create', k))
        for i in range(len(self.systems)):
            for d in self.durations:
                out.append(('simulate', i, d))
        if self.systems and self.ref[-1]:
            out.append(('readd',))
        if len(self.systems) < self.max_sys:
            out.append(('smt',))
        return self.restrict_first(out)

    # ------------------------------------------------------------------ globals
    def _enter(self):
        self._saved = (Asset._id_counter, System._instance, random.getstate())
        Asset._id_counter = self.id_counter
        System._instance = self.instance
        self._gs = globalstate.enter(self.gvals)
        L._CURRENT_HUB[0] = self.hub
        random.seed(12345)

    def _leave(self):
        L._CURRENT_HUB[0] = None
        self.id_counter = Asset._id_counter
        self.instance = System._instance
        globalstate.leave(self.gvals, self._gs)
        Asset._id_counter, System._instance, rs = self._saved
        random.setstate(rs)
        self._saved = self._gs = None

    def __getstate__(self):
        d = dict(self.__dict__)
        d.pop('_saved', None)
        d.pop('_gs', None)
        return d

    def make(self, kind, name):
        if kind == 'source':
            return Source(name, cycle_time=1)
        if kind == 'handler':
            return PartHandler(name, None, 1)
        if kind == 'processor':
            return PartProcessor(name, None, 1)
        if kind == 'buffer':
            return Buffer(name, None, 0, 2)
        if kind == 'gate':
            return DecisionGate(name, None, L.decide_all)
        if kind == 'batcher':
            return PartBatcher(name, None, 0, 2)
        if kind == 'sink':
            return Sink(name, None)
        if kind == 'maintainer':
            return Maintainer(name, 1)
        if kind == 'scheduler':
            return ActionScheduler([(1, 'a'), (0.5, 'b')], name)
        if kind == 'psensor':
            return PeriodicSensor(1, [AttributeProbe('v', self.tgt)], name, 2)
        if kind == 'osensor':
            p = PartProcessor(name + '_proc', None, 1)
            self.ref[-1].append(p.name)
            return OutputPartSensor(p, [AttributeProbe('quality', None)], 0, name)
        if kind == 'cms':
            return Cms(None, name)
        if kind == 'nested':
            if self.ref:
                self.ref[-1].append(name + '_sensor')    # registered before the machine that builds it
            return NestedProc(name, self.tgt)
        raise HarnessError(kind)

    def apply_op(self, label):
        self.budget -= 1
        self.hub.tlog = []
        self._enter()
        try:
            k = label[0]
            if k in ('newsys', 'newsubsys'):
                s = System() if k == 'newsys' else SubSystem()
                self.systems.append(s)
                self.ref.append([])
                if System._instance is not s:
                    raise Violation('active_system', 'a newly created System is not the active one')
                self.facts.append('system_created')
            elif k == 'create':
                self.count += 1
                name = f'{label[1]}{self.count}'
                if not self.systems:
                    try:
                        self.make(label[1], name)
                    except RuntimeError:
                        self.facts.append('no_system_rejected')
                    else:
                        raise Violation('no_system', f'{label[1]} created although no System exists')
                else:
                    before = [list(s._assets) for s in self.systems]
                    o = self.make(label[1], name)
                    self.ref[-1].append(name)
                    for i, s in enumerate(self.systems[:-1]):
                        if list(s._assets) != before[i]:
                            raise Violation('registered_with_stale', f'{name} changed the registry of system #{i}, which is not '
                                                                     f'the most recently created one')
                    if self.systems[-1]._simulation_is_initialized:
                        self.facts.append('created_after_first_run')
            elif k == 'simulate':
                i, d = label[1], label[2]
                s = self.systems[i]
                newest = i == len(self.systems) - 1
                t0 = s.env.now
                before = canon.digest(self.systems) if not newest else None
                try:
                    s.simulate(d, print_summary=False)
                except RuntimeError:
                    if newest:
                        raise Violation('newest_refused', f'simulate on the most recently created system raised RuntimeError')
                    if canon.digest(self.systems) != before:
                        raise Violation('stale_changed', f'refused simulate() on stale system #{i} changed some system')
                    self.facts.append('stale_rejected')
                else:
                    if not newest:
                        raise Violation('stale_simulated', f'system #{i} simulated although system #{len(self.systems) - 1} was created later')
                    if s.env.now != t0 + d:
                        raise Violation('clock', f'simulate({d}) from {t0} ended at {s.env.now}')
                    self.facts.append('simulated' if t0 == 0 else 'continued')
            elif k == 'smt':
                self.count += 1
                _SMT_NAME[0] = f'smt_sink{self.count}'
                res = System.simulate_multiple_times(_smt_fn, 1, 0)
                if not isinstance(res, list) or len(res) != 1 or not isinstance(res[0], System):
                    raise Violation('smt', f'simulate_multiple_times(f, 1, 0) returned {res}')
                s = res[0]
                self.systems.append(s)
                self.ref.append([_SMT_NAME[0]])
                if System._instance is not s:
                    raise Violation('active_system', 'after an in-process simulate_multiple_times the System it created (the most '
                                                     'recently created one) is not the active one')
                self.facts.append('smt_in_process')
            elif k == 'readd':
                s = self.systems[-1]
                a = s._assets[len(s._assets) // 2]
                try:
                    s.add_asset(a)
                except Exception as e:
                    if not __import__('mc').library_origin(e):
                        raise
                    raise Violation('readd', f'add_asset() of the already registered {a.name} raised {type(e).__name__}: {e} '
                                             f'(system started: {s._simulation_is_initialized})')
                self.facts.append('readd_after_start' if s._simulation_is_initialized else 'readd_before_start')
            else:
                raise HarnessError(f'unknown op {label}')
            for t in self.hub.tlog:
                if t[0] == 'initialize' and not t[2] in ('Part', 'Batch'):
                    self.inits[t[1]] = self.inits.get(t[1], 0) + 1
            self.check(label)
        finally:
            self._leave()

    def check(self, label):
        if self.systems and System._instance is not self.systems[-1]:
            raise Violation('active_system', 'the active system is not the most recently created one')
        for i, s in enumerate(self.systems):
            got = [a.name for a in s._assets]
            if got != self.ref[i]:
                raise Violation('registry', f'after {label}: system #{i} registered {got}, expected (creation order) {self.ref[i]}')
            for a in s._assets:
                n = self.inits.get(a.name, 0)
                want = 1 if s._simulation_is_initialized else 0
                if n != want:
                    raise Violation('initialised_once', f'after {label}: {a.name} of system #{i} initialised {n} times, expected {want} '
                                                        f'(system started: {s._simulation_is_initialized})')
                if want and a.env is not s.env:
                    raise Violation('initialised_once', f'after {label}: {a.name}.env is not the environment of its system')
            self.lookup(s)

    def lookup(self, s):
        self.facts.append('lookup_checked')
        assets = list(s._assets)
        # the caller does what it likes with a result list: the registry is not affected
        for kw in ({}, {'subtype': Asset}):
            got = s.find_assets(**kw)
            if got is s._assets:
                raise Violation('find_assets', f'find_assets({kw}) hands out the system\'s own list of assets')
            got.clear()
            if list(s._assets) != assets:
                raise Violation('find_assets', f'clearing the list returned by find_assets({kw}) changed the registry')
        if not assets:
            if s.find_assets() != []:
                raise Violation('find_assets', 'non-empty result on an empty system')
            return
        for a in assets:
            got = s.find_assets(id_=int(str(a.id)))
            if len(got) != 1 or got[0] is not a:
                raise Violation('find_assets', f'find_assets(id_={a.id}) -> {[x.name for x in got]}, expected [{a.name}] '
                                               f'(registered ids in registration order: {[x.id for x in assets]})')
        some = assets[len(assets) // 2]
        # filter values that are falsy but not None are filters too
        for kw in ({'name': ''}, {'id_': 0}, {'subtype': ()}, {'name': '', 'type_': type(some)}, {'id_': 0, 'name': some.name}):
            got = s.find_assets(**kw)
            if got != []:
                raise Violation('find_assets', f'find_assets({kw}) -> {[a.name for a in got]}, expected [] (no asset has that '
                                               f'name / id / is an instance of no class)')
        for nm in (None, some.name, 'no such asset'):
            for i in (None, int(str(some.id)), 987654):      # equal to the id, not the same int object
                for ty in (None, type(some), Source):
                    for sb in (None, PartHandler, Asset):
                        got = s.find_assets(name=nm, id_=i, type_=ty, subtype=sb)
                        want = [a for a in assets if (nm is None or a.name == nm) and (i is None or a.id == i)
                                and (ty is None or type(a) is ty) and (sb is None or isinstance(a, sb))]
                        if len(got) != len(want) or any(x is not y for x, y in zip(got, want)):
                            raise Violation('find_assets', f'find_assets(name={nm}, id_={i}, type_={ty}, subtype={sb}) -> '
                                                           f'{[a.name for a in got]}, expected {[a.name for a in want]}')
