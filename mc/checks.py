'''Per-property check definitions: which scenarios, monitors, bounds (DESIGN.md section 5).'''
from . import scenarios as S
from .linejobs import line_job


def _nontrivial_default(r):
    return r.get('branching_states', 0) > 0 and r.get('transitions', 0) > 1


class Check:
    prop = ''
    rule = ''
    assumptions = ()
    technique = ('explicit-state model checking of the real implementation: exhaustive tie-break orders + '
                 'bounded fault/operation injection with state matching')
    level_text = ''
    level_note = ('Bounded: small-scope scenario catalogue, <=K injected operations, fixed horizons; trusted: the '
                  'harness world builder, canonicaliser (over-fine, never coarser than the listed drops) and '
                  'the CPython interpreter. E1 forking is validated against the real System.simulate() by E2.')

    def jobs(self, tier):
        raise NotImplementedError

    def nontrivial(self, r):
        return _nontrivial_default(r)

    def extra(self, tier, outs):
        return {}


CHECKS = {}


def check(cls):
    CHECKS[cls.prop] = cls()
    return cls


def catalogue(K, thorough=False):
    '''Catalogue rows used by the whole-line monitors.'''
    rows = [S.FAN(K), S.GATE(K), S.REENT(K), S.REENT(K, src_cycle=1), S.GRP2(K), S.NEST_MID(K),
            S.BATCH(K), S.BATCH(K, pattern=(None, 0, 3), size=3, cap=2, sink_cycle=1),
            S.RES(K), S.RES(K, r=2, q=0), S.RES_SER(K), S.MAINT(K), S.MAINT(K, n=1), S.BLOCK(K),
            S.BUDGET(K), S.REWIRE(K)]
    return rows


@check
class C02(Check):
    prop = 'C02'
    rule = ('every tie-break order (state matching) x every placement of <=K injected operations on each '
            'catalogue scenario, plus every well-posed serial line of length <=2 with K=0; census of leaf '
            'parts after every real Environment.step(); a scenario is non-trivial if at least one state '
            'offered more than one successor')

    level_text = ('Invariant (census of leaf parts, single slots, budget) evaluated after every real event in every '
                  'reachable state of each scenario, for all tie-break orders and all placements of <=K injected '
                  'failures/shutdowns/work orders/blocks/capacity and budget changes; right level because conservation '
                  'is a whole-system safety invariant over interleavings and fault placements.')

    def jobs(self, tier):
        mons = ['census']
        jobs = []
        K = 1 if tier == 'quick' else 2
        for sp in catalogue(K):
            jobs.append(line_job(sp, mons, e2=3 if tier == 'quick' else 10, max_states=400000, max_seconds=900))
        # two deviations on the smallest maintenance line (failure placed inside a shutdown / work order)
        jobs.append(line_job(S.MAINT(K + 1, n=1), mons, e2=3, max_states=400000, max_seconds=900))
        nmax = 1 if tier == 'quick' else 2
        for sp, ok in S.ser_family(n_max=nmax):
            if ok:
                jobs.append(line_job(sp, mons, e2=1))
        return jobs
