'''Per-property check definitions: which scenarios, monitors, bounds (DESIGN.md section 5).'''
from . import scenarios as S
from .linejobs import line_job


def _nontrivial_default(r):
    return r.get('branching_states', 0) > 0 and r.get('transitions', 0) > 1


class Check:
    prop = ''
    rule = ''
    assumptions = ()
    technique = ('explicit-state model checking of the real implementation: exhaustive tie-break orders + '
                 'bounded fault/operation injection with state matching')
    level_text = ''
    level_note = ('Bounded: small-scope scenario catalogue, <=K injected operations, fixed horizons; trusted: the '
                  'harness world builder, canonicaliser (over-fine, never coarser than the listed drops) and '
                  'the CPython interpreter. E1 forking is validated against the real System.simulate() by E2.')

    def jobs(self, tier):
        raise NotImplementedError

    def nontrivial(self, r):
        return _nontrivial_default(r)

    def extra(self, tier, outs):
        return {}


CHECKS = {}


def check(cls):
    CHECKS[cls.prop] = cls()
    return cls


def catalogue(K, thorough=False):
    '''Catalogue rows used by the whole-line monitors.'''
    hg = 6 if thorough and K <= 1 else 4      # the two-source group scenarios grow fastest
    rows = [S.FAN(K), S.GATE(K), S.REENT(K), S.REENT(K, src_cycle=1), S.GRP2(K, horizon=hg),
            S.NEST_MID(K, horizon=hg), S.NEST_OUT(K, horizon=hg),
            S.BATCH(K), S.BATCH(K, pattern=(None, 0, 3), size=3, cap=2, sink_cycle=1),
            S.RES(K), S.RES(K, r=2, q=0), S.RES_SER(K), S.MAINT(K), S.MAINT(K, n=1), S.BLOCK(K),
            S.BUDGET(K), S.REWIRE(K), S.REWIRE2(K),
            S.BATCH(K, size=2, cap=3, sink_cycle=2), S.BUFBATCH(K), S.BUFBATCH(K, pattern=(3, 2), cap=4, size=2),
            S.BATCH_DIRECT(K), S.GRPFAN(K), S.RES_SHUT(K), S.BLOCKED_OUT(K), S.FANOUT_DELAY(K), S.BATCHGATE(K),
            S.GRPPAR(K, horizon=hg), S.SCHED_BLOCK(K),
            S.GRP_BLOCKED(K), S.GRPBATCH(K), S.EMPTYBATCH(K), S.TWOSRC(K), S.GATE_NONE(K), S.DELAY01_LONG(0),
            S.MAINT2_SCRIPT(K), S.GRPIN(K), S.RES3(K), S.BLOCKED_OUT_SCRIPT(K), S.BUFGATE(K),
            S.BATCH_DIRECT(K, pattern=(2, 2, None), size=3, cap=3, sink_cycle=2),
            S.BATCH(K, size=2, cap=6, sink_cycle=2), S.BLOCK_SCRIPT(K), S.BUDGET(K, budget=0), S.BATCHSLOW(K), S.RES3L(K), S.LOOP(K), S.GRPPASS(K), S.BUF2_SCRIPT(K), S.EMPTYBATCH_SCRIPT(K), S.BLOCK0(K), S.FLOATNOISE(K)]
    return rows


@check
class C02(Check):
    prop = 'C02'
    rule = ('every tie-break order (state matching) x every placement of <=K injected operations on each '
            'catalogue scenario, plus every well-posed serial line of length <=2 with K=0; census of leaf '
            'parts after every real Environment.step(); a scenario is non-trivial if at least one state '
            'offered more than one successor')

    level_text = ('Invariant (census of leaf parts, single slots, budget) evaluated after every real event in every '
                  'reachable state of each scenario, for all tie-break orders and all placements of <=K injected '
                  'failures/shutdowns/work orders/blocks/capacity and budget changes; right level because conservation '
                  'is a whole-system safety invariant over interleavings and fault placements.')

    def jobs(self, tier):
        mons = ['census']
        jobs = []
        K = 1 if tier == 'quick' else 2
        jobs = _line_jobs(catalogue(K, tier != 'quick') + [S.MAINT(K + 1, n=1)], mons, tier)
        nmax = 1 if tier == 'quick' else 2
        for sp, ok in S.ser_family(n_max=nmax):
            if ok:
                jobs.append(line_job(sp, mons, e2=1))
        for sp, ok in S.ser_family(n_max=1, budgets=(0,)):          # part budget 0: nothing may be supplied
            jobs.append(line_job(sp, mons, e2=1))
        return jobs + topo_jobs(mons, tier)


def _line_jobs(specs, mons, tier, e2q=3, e2t=10, trace=False, **caps):
    caps.setdefault('max_states', 400000)
    caps.setdefault('max_seconds', 900)
    caps.setdefault('max_depth', 800)
    out = []
    for sp in split_specs(specs):
        m = [(['route', sp['name'].startswith(('FAN', 'GRPFAN'))] if x == 'route' else x) for x in mons]
        out.append(line_job(sp, m, e2=e2q if tier == 'quick' else e2t, trace=trace, **caps))
    return out


def topo_jobs(mons, tier, kinds=None):
    '''The enumerated two-layer topology family (225 topologies: every pair of layer options, one or two parallel
    devices of every kind): K=0 in the quick tier, K=1 in the thorough one.  `kinds` restricts to topologies that
    contain a device of one of the given kinds.'''
    out = []
    for sp in S.topo_family(0 if tier == 'quick' else 1):
        if kinds and not any(d['kind'] in kinds for d in sp['devices']):
            continue
        m = [(['route', False] if x == 'route' else x) for x in mons]
        out.append(line_job(sp, m, e2=1, max_states=200000, max_depth=1500, max_seconds=900))
    return out


def split_specs(specs):
    '''Scenarios with K >= 2 are partitioned by their first injected operation so that one
    scenario can use several cores (the union of the parts is the whole space).'''
    out = []
    for sp in specs:
        if sp.get('K', 0) >= 2 and len(sp.get('ops', [])) >= 2:
            for i in range(len(sp['ops'])):
                for pos in sp.get('positions', ('pre', 'end', 'mid')):
                    s2 = dict(sp)
                    s2['first_op'] = i
                    s2['first_pos'] = pos
                    s2['name'] = f'{sp["name"]}/first={"-".join(str(x) for x in sp["ops"][i])}@{pos}'
                    out.append(s2)
        else:
            out.append(sp)
    return out


def _fact_nontrivial(*facts):
    def f(self, r):
        fs = r.get('facts', {})
        return r.get('branching_states', 0) > 0 and all(fs.get(x, 0) > 0 for x in facts)
    return f


@check
class C03(Check):
    prop = 'C03'
    rule = ('every tie-break order x every placement of <=K injected operations (failure, shutdown/restore, work '
            'order, block/unblock, resource capacity +-1, budget +-1/2, rewiring) on each catalogue scenario; at every '
            'state in which the clock is about to advance and at the end of the run each ready part is offered to the '
            'real give_part of its downstream list on a forked copy; non-trivial = a scenario in which at least one such '
            'probe found a genuinely blocked part and at least one state branched')
    level_text = ('Liveness-as-safety invariant ("no ready part whose downstream would accept it while the clock advances") '
                  'checked in every reachable quiescent state, acceptance decided by the implementation itself on a fork; '
                  'plus termination of every explored run within a step cap.')
    nontrivial = _fact_nontrivial('wakeup_probe')

    def jobs(self, tier):
        K = 1 if tier == 'quick' else 2
        specs = catalogue(K, tier != 'quick') + [S.MAINT(K + 1, n=1), S.RES(K + 1, horizon=4), S.BUDGET(K + 1),
                                                   S.REWIRE(K + 1, horizon=4), S.REWIRE2(K + 1, horizon=4), S.BLOCK(K + 1, horizon=4)]
        # capacity changes / unblocking / budget adjustments made BETWEEN two consecutive runs must wake parts up too
        specs += [S.with_splits(x) for x in (S.RES(K), S.BLOCK(K), S.BUDGET(K))]
        # sinks with stretched / per-part cycle times; devices created while running with a blocked device as upstream
        specs += [S.LOOP(K), S.LOOP(K, delay=0), S.RES_NOISE(K), S.RES_TWICE(K)]
        specs += [S.SINKOFF(K), S.LATE(K, horizon=4, name='c03', ops=[['create', 3, 4], ['create', 10, 11], ['create', 12, 13, 14],
                                                                     ['block', 'M1', True]])]
        jobs = _line_jobs(specs, ['wakeup'], tier)
        nmax = 1 if tier == 'quick' else 2
        for sp, ok in S.ser_family(n_max=nmax):
            if ok:
                jobs.append(line_job(sp, ['wakeup'], e2=1, max_depth=800))
        return jobs + topo_jobs(['wakeup'], tier)


def buffer_scenarios(K, thorough):
    rows = [S.FAN(K), S.FANOUT(K), S.BATCH(K, cap=2, sink_cycle=1), S.BATCH(K, pattern=(3, None, 2), size=None, cap=3, sink_cycle=1),
            S.MAINT(K), S.RES_SER(K), S.DELAY01(K), S.BUFBATCH(K), S.BUFBATCH(K, pattern=(3, 2), cap=4, size=2),
            S.FANOUT_DELAY(K), S.BATCH(K, size=2, cap=3, sink_cycle=2), S.BATCH_DIRECT(K, cap=3, sink_cycle=1),
            S.TWOSRC(K), S.TWOSRC(K, eps=1e-9, delay=1, horizon=4), S.DELAY01_LONG(0), S.EMPTYBATCH(K),
            S.BUFBATCH(K, pattern=(3, 3, None), cap=5, size=None, sink_cycle=2), S.BUFGATE(K), S.EMPTYBATCH_SCRIPT(K),
            S.BATCH(K, size=2, cap=6, sink_cycle=2), S.LOOP(K), S.LOOP(K, delay=0), S.BUF2_SCRIPT(K),
            S.LOOP(K, delay=0, cap=6, pattern=(3, None)), S.LOOP(K, delay=1, cap=5, pattern=(2, 3))]
    return rows


@check
class C05(Check):
    prop = 'C05'
    rule = ('every tie-break order x <=K injected operations on scenarios with buffers between competing real producers '
            'and consumers (fan-in, fan-out, batches, failing/blocked/resource-starved consumers, one non-dyadic delay), '
            'plus every well-posed serial line of length <=2 that contains a buffer (K=0); non-trivial = some part left a '
            'buffer and some hand-over was refused')
    level_text = ('Buffer invariants (level = stored leaves <= capacity, removal only from the head in hand-over order, '
                  'departure >= arrival + delay - 1ulp) evaluated after every real event in every reachable state.')
    nontrivial = _fact_nontrivial('buffer_departure', 'refusal')

    def jobs(self, tier):
        K = 1 if tier == 'quick' else 2
        jobs = _line_jobs(buffer_scenarios(K, tier != 'quick'), ['buffer'], tier)
        nmax = 2
        for sp, ok in S.ser_family(n_max=nmax, budgets=(None,) if tier == 'quick' else (None, 2)):
            if ok and any(d['kind'] == 'buffer' for d in sp['devices']):
                jobs.append(line_job(sp, ['buffer'], e2=1, max_depth=800))
        return jobs + topo_jobs(['buffer'], tier, kinds=('buffer',))


@check
class C06(Check):
    prop = 'C06'
    rule = ('every tie-break order x <=K injected shutdown/restore/failure(now, +1)/work-order(duration 0, 1.5) operations '
            'on maintenance lines whose receive callbacks change the cycle time and add one-shot offsets per part ordinal '
            '(including negative offsets floored at 0); operational processing time integrated by the monitor; '
            'non-trivial = a cycle completed and a part was lost in process or a machine was down while holding a part')
    level_text = ('Exact-time invariant: release from processing happens at operational-time distance max(0, cycle+offset) '
                  'from acceptance, never early/late/twice; sources and sinks honour their cycle; checked on every transition of '
                  'every reachable state for all placements of <=K interruptions.')
    nontrivial = _fact_nontrivial('cycle_completed')

    def jobs(self, tier):
        K = 2 if tier == 'quick' else 3
        specs = [S.MAINT(K, n=1), S.CYCLES(K), S.MAINT(K - 1), S.RES_SER(K - 1), S.CYCLES2(K - 1), S.FAN(K - 1),
                 S.BUDGET(K - 1), S.BUDGET(K, budget=1, horizon=4), S.MAINT_SCRIPT(K), S.MAINT2_SCRIPT(K - 1),
                 S.OFFSETS2(K - 1), S.BLOCKED_OUT(K - 1), S.CYCLES3(K), S.SINKOFF(K - 1)]
        jobs = _line_jobs(specs, ['cycle'], tier)
        for sp, ok in S.ser_family(n_max=1 if tier == 'quick' else 2):
            if ok:
                jobs.append(line_job(sp, ['cycle'], e2=1, max_depth=800))
        return jobs + topo_jobs(['cycle'], tier, kinds=('handler', 'processor'))


@check
class C08(Check):
    prop = 'C08'
    rule = ('every tie-break order x <=K injected failures/blocks/shutdowns on fan-out/fan-in, complementary gates, a '
            're-entrant group, a group shared by two paths, nested groups, blocked inputs and batches; ground truth = '
            'instance-level observers around every real give_part; non-trivial = some hand-over was refused and a state branched')
    level_text = ('Routing invariants (configured edges only, gate predicate, no blocked input, exit path = innermost entered path, '
                  'routing history = observed route with no leftovers, collected order, idle-longest choice) checked on every '
                  'accepted hand-over chain and on every live part after every real event.')
    nontrivial = _fact_nontrivial('refusal')

    def jobs(self, tier):
        K = 1 if tier == 'quick' else 2
        th = tier != 'quick'
        hg = 6 if th and K <= 1 else 4
        specs = [S.FAN(K), S.FAN3(2, horizon=8), S.GRPFAN(K), S.GRPPAR(K, horizon=hg), S.SCHED_BLOCK(K), S.RES(K),
                 S.BATCHGATE(K), S.BATCH_DIRECT(K), S.GATE(K), S.GATE_NONE(K), S.GRPBATCH(K), S.GRP_BLOCKED(K),
                 S.FANFAIL(2), S.GRPIN(K), S.REGRADE(K), S.FANGATE(2), S.REENT(K), S.REENT(K, src_cycle=1), S.GRP2(K, horizon=hg),
                 S.NEST_MID(K, horizon=hg), S.NEST_OUT(K, horizon=hg), S.BLOCK(K), S.BATCH(K), S.REWIRE(K), S.REWIRE2(K + 1), S.GATEGRP(K),
                 S.GRPPASS(K), S.NEST_PASS(K), S.FANTOGGLE(K), S.FANTOGGLE2(K), S.FANOUT(K + 1), S.BLOCK0(K), S.FANFLOW(K), S.FANRES(K), S.FANSINK(K)]
        return _line_jobs(specs, ['route'], tier) + _line_jobs([S.NESTBATCH(K)], ['route', 'nesthistory'], tier) + topo_jobs(['route'], tier)


@check
class C11(Check):
    prop = 'C11'
    rule = ('every tie-break order x <=K injected capacity changes (to 0 and back), failures, restores, shutdowns on lines '
            'in which several processors (also inside a shared group) compete for pools; non-trivial = a processor held '
            'resources and some hand-over was refused')
    level_text = ('Pool usage = sum of declared requirements of processors holding a reservation, part in process => exact '
                  'holding, release on failure in the same transition, no idle operational holder when the clock advances; '
                  'checked in every reachable state.')
    nontrivial = _fact_nontrivial('holding', 'refusal')

    def jobs(self, tier):
        K = 1 if tier == 'quick' else 2
        specs = [S.RES(K), S.RES(K, r=2, q=0), S.RES(K + 1, horizon=4), S.RES_SER(K), S.RES_SER(K + 1, horizon=4),
                 S.RES2(K, horizon=5 if K == 1 else 4), S.RES3L(K),
                 S.GRP2(K, horizon=4, resources=True), S.GRPPAR(K, horizon=4, resources=True), S.RES_MAINT(K + 1),
                 S.RES_WINDOW(K + 1), S.RES_FRAC(K), S.FLOATNOISE(K), S.RES_RETRY(K), S.RES_TWICE(K)]
        return _line_jobs(specs, ['resources'], tier)


@check
class C13(Check):
    prop = 'C13'
    rule = ('every tie-break order x <=K injected failures (now/+1), shutdowns, restores and work orders (several per '
            'instant possible) on machines that are idle, processing, holding a finished part or already down; three ordered '
            'probe callbacks per kind; non-trivial = a failure hit a part in process and a redundant call was checked')
    level_text = ('State-machine and accounting invariants (no accept/release while down, failure loses exactly the part in '
                  'process and reports it once, finished part survives, redundant calls leave the digest unchanged, uptime and '
                  'utilisation equal independently integrated time, callbacks once per occurrence in order, default work order '
                  'keeps the target down for exactly its duration) in every reachable state.')
    nontrivial = _fact_nontrivial('failure_with_part', 'redundant_call_checked')

    def jobs(self, tier):
        K = 2 if tier == 'quick' else 3
        specs = [S.MAINT(K, n=1, probes=3), S.MAINT(K - 1, probes=3), S.FAN(K - 1), S.BLOCKED_OUT(K),
                 S.MAINT_SCRIPT(K, probes=3), S.MAINT2_SCRIPT(K - 1), S.VALUE0(K - 1), S.BLOCKED_OUT_SCRIPT(K - 1),
                 S.MAINT3_SCRIPT(K - 1), S.INSTANT(K), S.MAINT4_SCRIPT(K - 1), S.PASS_WINDOW(K)]
        # the cycle monitor rides along: a part whose processing time is stretched or cut by an outage shows up there
        jobs = _line_jobs(specs, ['shutdown', 'wakeup', 'cycle'], tier)
        # a machine created while the line is running: its uptime / utilisation count from its creation
        late = S.LATE(K, horizon=4, name='c13', ops=[['create', 3, 4], ['fail', 'M2', 0], ['shutdown', 'M2'], ['restore', 'M2']])
        jobs += _line_jobs([late, S.with_splits(S.LATE(K - 1, horizon=3, name='c13s', ops=late['ops']))],
                           ['shutdown', 'wakeup', 'cycle', 'lifecycle'], tier)
        if tier != 'quick':
            jobs += topo_jobs(['shutdown'], tier, kinds=('processor',))
        return jobs


@check
class C15(Check):
    prop = 'C15'
    rule = ('every tie-break order x <=K injected operations on every catalogue scenario; records compared with ground truth '
            '(callbacks + give_part observers + executed failure events) after every real event; trace: real simulate(trace=True) '
            'replays of explored paths compared with the dispatched event sequence; non-trivial = records of >=3 kinds appeared')
    level_text = ('Log-faithfulness invariant evaluated after every real event in every reachable state (last level/resource record '
                  '= live state, exactly one record per occurrence stamped now with id/quality/value, counters = record counts), '
                  'and the exported trace equals the dispatch sequence on replayed explored paths.')

    def nontrivial(self, r):
        return len([k for k in r.get('facts', {}) if k.startswith('rec:')]) >= 3 and r.get('branching_states', 0) > 0

    def jobs(self, tier):
        K = 1 if tier == 'quick' else 2
        specs = catalogue(K, tier != 'quick') + [S.MAINT(K + 1, n=1), S.VALUE(K)]
        # the same log obligations across consecutive simulate() calls, with operations issued between the runs
        specs += [S.with_splits(x) for x in (S.RES(K), S.MAINT(K, n=1), S.BUDGET(K), S.BATCH(K), S.FAN(K))]
        specs += [S.VALUE0(K), S.MAINT_SCRIPT(K)]
        # the user discards warm-up data (in the run and between runs); a user callback that raises ends the run
        specs += [S.WARMUP(K + 1), S.with_splits(S.WARMUP(K)), S.ABORT(K)]
        jobs = _line_jobs(specs, ['data'], tier, e2q=6, e2t=20, trace=True) + topo_jobs(['data'], tier)
        # the schedule-record clause: timetables with repeated states, wrap-around, zero durations
        sch = [S.SCHED([(1, 'a'), (0.5, 'a'), (1, 'b')], True, [('o1', 'default')], K=K),
               S.SCHED([(1, 'a')], True, [], K=K), S.SCHED([(0.5, 'a'), (0, 'b'), (0.5, 'a')], False, [], K=K), S.SCHED_BLOCK(K)]
        jobs += _line_jobs(sch, ['data', 'schedule'], tier, trace=True)
        # the resource clause on the component worlds of C09 / C10 (every change of a pool recorded, stamped now, last record =
        # pool), including a resource defined for the first time during the run
        from .comp import split_first
        from .compchecks import RM_ADDS, RM_REQUESTS, RM_RELEASES, BIG
        D = 4 if tier == 'quick' else 5
        jobs += split_first('rm', f'RM-C15[D{D}]', {'depth': D, 'adds': RM_ADDS, 'requests': RM_REQUESTS, 'releases': RM_RELEASES,
                                                    'records': True}, e2=5, max_states=3000000, max_seconds=3000)
        jobs += split_first('rmwait', f'RMWAIT-C15[D{D}]', {'depth': D, 'adds': [['n', 1], ['n', -1], ['a', 1], ['a', -1]],
                                                            'requests': [{'n': 1}, {'a': 2}, {'a': 1, 'n': 1}], 'pools': [['a', 2]],
                                                            'kinds': ['noop', 'take', 'give'], 'records': True},
                            e2=20, max_states=3000000, max_seconds=3000)
        return jobs


@check
class C16(Check):
    prop = 'C16'
    rule = ('every tie-break order x <=K injected failures/work orders on lines with valued parts, value added by finish '
            'callbacks, batches, losses and work-order costs; non-trivial = a sink collected non-zero value')
    level_text = ('Accounting identities (value = initial + history, entry format, source = -supplied, sink = received at receipt, '
                  'maintainer = initial - costs of started orders, batch = sum of parts, net value = sum) in every reachable state.')
    nontrivial = _fact_nontrivial('sink_value_nonzero')

    def jobs(self, tier):
        K = 1 if tier == 'quick' else 2
        specs = [S.VALUE(K), S.VALUE(K + 1, horizon=4), S.VALUE_BATCH(K), S.MAINT(K), S.MAINT(K + 1, n=1),
                 S.VALUE_NEST(K), S.VALUE_NEG(K), S.VALUE_NEG(K + 1, horizon=4), S.VALUE0(K), S.VALUE0(K + 1, horizon=4),
                 S.VALUE_FRAC(K), S.VALUE_FRAC(K + 1, horizon=3), S.VALUE_HOLD(K + 1), S.VALUE_ALL(K)]
        # assets created while the line is running count towards the net value from then on
        late = S.LATE(K, horizon=4, name='c16', ops=[['create', 5], ['create', 3, 4], ['wo', 'M1', 'x']])
        return _line_jobs(specs, ['value'], tier) + _line_jobs([late], ['value', 'lifecycle'], tier) + topo_jobs(['value'], tier)


@check
class C17(Check):
    prop = 'C17'
    rule = ('every tie-break order x <=K injected failures/blocks on batching lines: output size None,1,2,3; cyclic input '
            'patterns of single parts and batches of 0..3 parts; downstream blocking by sink cycle, buffer capacity, failing '
            'processor; non-trivial = the batcher both received a batch and emitted output')
    level_text = ('Order/size invariants of the batcher (FIFO of leaves across re-batching, exact output size, acceptance '
                  'discipline, counting by leaves, history reaches members) after every real event in every reachable state.')
    nontrivial = _fact_nontrivial('batcher_out', 'batcher_in:batch')

    def jobs(self, tier):
        K = 1
        specs = []
        pats = [(2, None, 3), (None, 0, 3), (3, 1), (0, 2, None), (None, None, 2)]
        if tier != 'quick':
            pats += [(1, 2, 3), (3, 3), (0, 0, 1), (2,), (None, 3, 0)]
        for pat in pats:
            for size in (None, 1, 2, 3):
                for cap, kc in ((None, 0), (2, 1)):
                    specs.append(S.BATCH(K if (size in (2, None) and cap is None) or tier != 'quick' else 0,
                                         pattern=pat, size=size, cap=cap, sink_cycle=kc, horizon=5))
        for pat in [(None, 2), (0, 2, None), (None, 0, 3), (3, 1), (2, 2, None), (3, 0, None), (0, 3, 2)]:
            for size in (None, 2, 3):
                specs.append(S.BATCH_DIRECT(K, pattern=pat, size=size, cap=4 if size else None, sink_cycle=1 if size else 0))
        specs += [S.BUFBATCH(K), S.BUFBATCH(K, pattern=(3, 2), cap=4, size=2), S.BATCHGATE(K), S.GRPBATCH(K), S.EMPTYBATCH(K),
                  S.BATCH(K, size=2, cap=6, sink_cycle=2), S.BUFBATCH(K, pattern=(3, 3, None), cap=5, size=None, sink_cycle=2),
                  S.EMPTYBATCH_SCRIPT(K), S.BATCHSLOW(K),
                  # batches that re-enter the buffer inside its own hand-over (zero-time loop through a gate)
                  S.LOOP(K, delay=0, cap=6, pattern=(3, None)), S.LOOP(K, delay=1, cap=5, pattern=(2, 3))]
        # nested batches: the history clause only (see scenarios.NESTBATCH)
        return _line_jobs(specs, ['batching', 'census', 'route'], tier) + _line_jobs([S.NESTBATCH(K)], ['route', 'nesthistory'], tier) + \
            topo_jobs(['batching', 'census', 'route'], tier, kinds=('batcher',))


@check
class C18(Check):
    prop = 'C18'
    rule = ('every well-posed timetable of length 1..3 over durations {0, 0.5, 1, 2} (states a, b, a: a repeated state), cyclical '
            'and not, horizon 6, x registrations made before the run (none / one default / default+override) x <=K register/'
            'unregister operations (default and override actions, two objects) injected at every position (before the head event, '
            'between instants, last of the instant) -- K=2 on the whole family, K=2 (3 thorough) on selected timetables incl. two '
            'schedulers whose changes tie -- plus the shift schedule of examples/OperatingSchedule.py in a line with failures; '
            'non-trivial = a state change happened and an object was (un)registered during the run')
    level_text = ('Lock-step agreement with a timetable evaluated independently (repeated addition from the start time): '
                  'current_state after every event, change instants (none missed, none spurious, last state kept forever when '
                  'not cyclical), one schedule_update record per change, and at every change and at start-up exactly one action '
                  'call per currently registered object in registration order with (scheduler, object, now, new state).')
    nontrivial = _fact_nontrivial('state_change', 'registered_during_run')

    def jobs(self, tier):
        th = tier != 'quick'
        jobs = []
        pre = [[], [('o1', 'default')], [('o1', 'override'), ('o2', 'default')]]
        for tt in S.timetables():
            for cyc in (True, False):
                if not S.timetable_well_posed(tt, cyc):
                    continue
                for pr in (pre if th else pre[:2]):
                    jobs.append(line_job(S.SCHED(tt, cyc, pr, K=2), ['schedule'], e2=2 if not th else 5, max_depth=800))
        K = 3 if th else 2
        hi = S.SCHED([(1, 'a'), (0.5, 'b'), (1, 'a')], True, [('o1', 'default')], K=2)
        hi['positions'] = ['pre', 'hi', 'mid']
        hi['name'] += '+hi'
        jobs += _line_jobs([hi], ['schedule'], tier)
        sel = [S.SCHED([(1, 'a'), (0.5, 'b')], True, [('o1', 'default')], K=K),
               S.SCHED([(1, 'a'), (0, 'b'), (2, 'a')], False, [('o1', 'override'), ('o2', 'default')], K=K),
               S.SCHED([(0.5, 'a'), (0, 'b'), (0.5, 'a')], True, [], K=K),
               S.SCHED([(1, 'a'), (0.5, 'b')], True, [('o1', 'default')], K=K, second=[(0.5, 'x'), (1, 'y')]),
               S.SCHED_BLOCK(K - 1), S.SCHED_SAME(K),
               S.SCHED([(1, 'a'), (0.5, 'b')], True, [('o1', 'default')], K=K, inline=True, horizon=4),
               S.SCHED([(1, 'a'), (0.5, 'b'), (1, 'c')], False, [('o1', 'default')], K=K, inline=True, horizon=4),
               S.FLOATNOISE(K - 1),
               S.SCHED([(1, 'a'), (0.5, None), (1, 'b')], True, [('o1', 'default')], K=K, horizon=5),
               S.SCHED([(0.5, None), (1, 'b')], False, [('o1', 'default')], K=K, horizon=3)]
        jobs += _line_jobs(sel, ['schedule'], tier)
        # a scheduler created while the line is running / between two runs follows its timetable from its creation on
        late = S.LATE(1, creates=[[6]], horizon=4, name='sched')
        jobs += _line_jobs([late, S.with_splits(late)], ['schedule', 'lifecycle'], tier)
        # ... and so does one created by another asset's start-up action (during the one-time initialisation pass)
        jobs += _line_jobs([S.INITCREATE(K - 1, creates=[6], name='sched')], ['schedule', 'lifecycle'], tier)
        return jobs


@check
class C19(Check):
    prop = 'C19'
    rule = ('every tie-break order x <=K injected operations (in-place mutation of the probed attribute, failure, work order, '
            'restore of the processor under the output-part sensor) on lines with a periodic sensor (interval 0.5 / 1 / 1.5 and '
            'the non-dyadic 0.1; 1-2 probes; data capacity 1, 2, 3, unlimited; 1-2 callbacks), an output-part sensor (sensing '
            'interval 0, 1, 2; capacity 1 / unlimited), a second periodic sensor whose events tie with the first, and a CMS to '
            'which one sensor is added twice; non-trivial = a series was trimmed and a tie between sensor events was broken')
    level_text = ('Lock-step agreement with an independently computed sampling schedule and value history after every event: '
                  'k-th periodic measurement at the k-fold repeated sum of the interval (none missed), first finished part then '
                  'every (n+1)-th, stored series = last min(count, capacity) COPIES per probe with the time series aligned, '
                  'callbacks and the CMS hook once each in registration order with (sensor, now, values).')
    nontrivial = _fact_nontrivial('measurement')

    def jobs(self, tier):
        th = tier != 'quick'
        K = 2 if th else 1
        specs = []
        for interval, cap in ((1, 2), (0.5, 1), (1.5, 3), (1, None)):
            for n, ocap in ((0, None), (1, 1), (2, None)):
                specs.append(S.SENS(K, interval=interval, cap=cap, n=n, ocap=ocap,
                                    callbacks=2 if cap != 3 else 1, cms_twice=cap != 1,
                                    second=1 if interval != 1.5 else None))
        specs.append(S.SENS(0, horizon=1.0, interval=0.1, cap=3, n=0))
        specs.append(S.SENS(K, interval=1, cap=2, n=1, placeholder='processor', two_cms=True))
        specs.append(S.SENS(K, interval=0.5, cap=None, n=0, ocap=1, two_cms=True, cms_twice=False))
        specs.append(S.SENS(K, interval=1, cap=2, n=0, second=0.5, same_name=True))
        specs.append(S.SENS(K, interval=1, cap=2, n=1, post_dq=-0.125))
        specs.append(S.SENS(K, interval=1, cap=2, n=0, burst=True, horizon=3))
        specs.append(S.SENS(K + 1, interval=2, cap=2, n=2, manual=True, horizon=6))
        specs.append(S.SENS(K, interval=1, cap=2, n=1, late_cb=True, cms_twice=False, horizon=4))
        specs += [S.REENT_SENS(K, n=1), S.REENT_SENS(K, n=0)]
        # sensors and a CMS created while the line is running / between two runs: same schedule from their creation on
        late = S.LATE(1, creates=[[7], [8], [9]], horizon=4, name='sens')
        specs += [late, S.with_splits(late)]
        return _line_jobs(specs, ['sensors', 'lifecycle'], tier)


@check
class C20(Check):
    prop = 'C20'
    rule = ('(a) line worlds: every kind of asset (source+handler+sink forming a new line, processor, maintainer, action '
            'scheduler, periodic sensor, output-part sensor, CMS, buffer, batcher+gate+sink) created from inside an event at '
            'every injection position (before the head event, between two instants, last of the instant) of a running line and, '
            'with the run split into consecutive simulate() calls, between two runs; K=1 creation on the whole family, K=2 '
            '(creation followed by a work order on the late maintainer / a failure of the late machine / a second creation); '
            'all tie-break orders; (b) registry world: every sequence of <=D operations from {create System, create asset of '
            'each kind, simulate(d) on the newest / on a stale system}; non-trivial = an asset was created late and look-up was checked')
    level_text = ('After every event: registered assets = creation order, each initialised exactly once (logging wrapper around '
                  'Asset.initialize) and never again on continuation, find_assets = filter of the registered list for all 144 '
                  'filter combinations; a late-created asset must satisfy, from its creation time on, the same reference models '
                  'as one created up front: source cycle (C06), processor uptime/utilisation (C13), timetable (C18), sampling '
                  'schedule (C19), conservation (C02), no lost wake-up (C03), faithful records (C15).')
    nontrivial = _fact_nontrivial('lookup_checked')
    MONS = ['lifecycle', 'census', 'cycle', 'shutdown', 'schedule', 'sensors', 'wakeup', 'data']

    def jobs(self, tier):
        th = tier != 'quick'
        specs = [S.INITCREATE(1), S.LATE(1), S.with_splits(S.LATE(1, horizon=4)),
                 S.LATE(2, horizon=4, name='2', ops=[['create', 5], ['wo', 'M1', 'x'], ['create', 3, 4], ['fail', 'M2', 0],
                                                     ['create', 0, 1, 2], ['create', 7]])]
        if th:
            specs += [S.LATE(2, horizon=4, name='3'), S.with_splits(S.LATE(2, horizon=3, name='4'), 1)]
        jobs = _line_jobs(specs, self.MONS, tier, e2q=6, e2t=20)
        from .comp import comp_job, split_first
        D = 5 if th else 4
        jobs.append(comp_job('life', 'LIFE[empty,D3]', {'depth': 3, 'presys': 0, 'id_offset': 300}, e2=10))
        jobs += split_first('life', f'LIFE[1 system,D{D}]', {'depth': D, 'presys': 1, 'id_offset': 300}, e2=5,
                            max_states=2000000, max_seconds=3000)
        return jobs


@check
class C04(Check):
    prop = 'C04'
    rule = ('every well-posed serial line Source -> stations^n -> Sink, n<=2 (n=3 on a reduced alphabet in the thorough tier), '
            'stations = handler / processor with cycle 0,1,2 (+0.5 thorough) or buffer with capacity 1,2,unbounded and delay 0,1; '
            'source cycle 0,1,2; sink cycle 0,1; budget unbounded or 2; horizon 5; under EVERY tie-break order (exhaustive with '
            'state matching, no injected operations); the same with one station of delay or cycle 2**31 next to stations of '
            'cycle 0.5 and 0 (4 parts, horizon 5*2**31); the two documented long-horizon examples are run under two deterministic '
            'tie policies only (conformance, not exhaustive); non-trivial = a line on which a tie was broken and parts went through')
    level_text = ('Exact agreement (dyadic grid, equality of floats) between the arrival times recorded at every station and an '
                  'independent max-plus reference recurrence, at the end of every explored schedule of every line of the family; '
                  'sink counts equal the reference counts.')
    assumptions = ('ill-posed lines (zero-cycle unlimited source feeding an unbounded absorber through zero-time stations: '
                   'infinitely many events in one instant) are excluded by a static predicate and counted',)

    def nontrivial(self, r):
        return r.get('facts', {}).get('parts_through', 0) > 0 and r.get('branching_states', 0) > 0

    def jobs(self, tier):
        from .linejobs import conformance_job
        th = tier != 'quick'
        jobs = []
        self.excluded = 0
        for sp, ok in S.ser_family(n_max=2, thorough=th):
            if ok:
                jobs.append(line_job(sp, ['recurrence'], e2=1, max_depth=1500))
            else:
                self.excluded += 1
        if th:
            opts = [('handler', {'cycle': 0}), ('handler', {'cycle': 1}), ('processor', {'cycle': 0}), ('processor', {'cycle': 2}),
                    ('buffer', {'capacity': 1, 'delay': 0}), ('buffer', {'capacity': 2, 'delay': 1}),
                    ('buffer', {'capacity': None, 'delay': 0}), ('buffer', {'capacity': 1, 'delay': 1})]
            for sp, ok in S.ser_family(n_max=3, n_min=3, opts=opts, horizon=6):
                if ok:
                    jobs.append(line_job(sp, ['recurrence'], e2=1, max_depth=2500))
                else:
                    self.excluded += 1
        # a source whose part budget is 0 supplies nothing (n<=1)
        for sp, ok in S.ser_family(n_max=1, budgets=(0,)):
            jobs.append(line_job(sp, ['recurrence'], e2=1, max_depth=1500))
        # "every horizon": the same lines with the horizon reached through two consecutive simulate() calls, split at
        # every quiescent point (every split point is replayed through the real calls)
        n = 0
        for sp, ok in S.ser_family(n_max=2, src_cycles=(1,), sink_cycles=(0, 1), budgets=(None,)):
            n += 1
            if ok and n % 7 == 0:
                jobs.append(line_job(S.with_splits(sp), ['recurrence'], e2=2, max_depth=1500))
        # other horizons, in particular horizons that coincide with the first event (inclusive end of the run)
        for hz in (1, 2, 0):
            for sp, ok in S.ser_family(n_max=1, budgets=(None,), horizon=hz):
                if ok:
                    sp['name'] += f'@h{hz}'
                    jobs.append(line_job(sp, ['recurrence'], e2=2, max_depth=1500))
        # magnitudes: one station holds every part for 2**31 time units while the rest of the line works on a grid of 0.5
        # (all times stay exactly representable; a tolerance RELATIVE to the clock is then larger than the grid)
        BIG = 2 ** 31
        opts = [('buffer', {'capacity': None, 'delay': BIG}), ('buffer', {'capacity': 2, 'delay': BIG}),
                ('processor', {'cycle': BIG}), ('processor', {'cycle': 0.5}), ('handler', {'cycle': 0})]
        for sp, ok in S.ser_family(n_max=2, n_min=2, opts=opts, src_cycles=(1,), sink_cycles=(0,) if not th else (0, 1),
                                   budgets=(4,), horizon=5 * BIG):
            if ok and 'd%d' % BIG in sp['name'] or 'P%d' % BIG in sp['name']:
                jobs.append(line_job(sp, ['recurrence'], e2=1, max_depth=1500))
        for ex in (S.EX_SINGLE_PROCESSOR(), S.EX_BUFFER()):
            for pol in ('first', 'last'):
                jobs.append(conformance_job(ex, ['recurrence', 'examplecount'], pol))
        return jobs

    def extra(self, tier, outs):
        return {'ill_posed_lines_excluded_by_predicate': getattr(self, 'excluded', 0),
                'documented_examples': 'SingleProcessor.py=99 and BufferExample.py=10079 checked under two deterministic tie '
                                       'policies (conformance runs, not exhaustive)'}


@check
class C14(Check):
    prop = 'C14'
    technique = ('explicit-state model checking of the real implementation for the split-run clause (one-step bisimulation at '
                 'every explored split point, all tie-break orders, state matching); exhaustive enumeration of executor '
                 'completion orders for simulate_multiple_times; enumerated seed x id-offset grid with the real random '
                 'tie-breaks for the same-seed clause')
    rule = ('(a) split runs: on FAN, MAINT, RES, GATE, BUDGET and BATCH lines every quiescent point (strictly between two instants '
            'and last of an instant) x every tie-break order x <=K injected operations: the state one event after "split + '
            'resume" equals the state one event after no split, for every event that can be dispatched next (by state matching '
            'this extends to whole evolutions); the split emulation itself is validated against real consecutive simulate() '
            'calls; (b) same seed: 4 models (fan-in, two sources merging into one machine, maintenance with failures, shared '
            'resource) x seeds 0..7 x asset-id offsets 0/1/7 x 2 repetitions, real RNG, compared after id '
            'normalisation; two fresh interpreters with different PYTHONHASHSEED; (c) simulate_multiple_times: n=1..4 x '
            'max_processes 0/1/2/3/None with a controllable executor completing the futures in every permutation (n=12: '
            'submission order, reverse and two rotations only), result i = system of index i = in-process result; real process pools for n=3 as conformance only')
    level_text = ('Exhaustive over split points, tie-break orders and executor completion orders within the stated bounds; the '
                  'same-seed clause is an enumerated grid of real runs (seeds are data, not schedules: every seed cannot be '
                  'enumerated); scheduling of real OS worker processes cannot be enumerated by this technique and is only sampled.')
    level_note = ('Bounded as stated in the rule; the OS scheduling of real worker processes and the space of all seeds are outside '
                  'what can be enumerated; trusted: harness, canonicaliser, CPython.')

    def nontrivial(self, r):
        f = r.get('facts', {})
        return any(f.get(k, 0) > 0 for k in ('split_point_compared', 'seeds_give_different_outcomes',
                                               'completion_orders_enumerated', 'fresh_interpreters_compared',
                                               'real_pools_conformance_only'))

    def jobs(self, tier):
        from .repro import repro_job
        th = tier != 'quick'
        K = 1 if not th else 2
        specs = [S.with_splits(x) for x in (S.FAN(K), S.MAINT(K), S.RES(K), S.GATE(K), S.BUDGET(K), S.BATCH(K),
                                            S.MAINT(K + 1, n=1, horizon=4), S.SCHED_BLOCK(K), S.SENS(K, horizon=4),
                                            # user events without an owning asset (scripted) pending across the split
                                            S.RES_SHUT(K, horizon=7), S.BLOCK_SCRIPT(K))]
        if th:
            specs += [S.with_splits(S.FAN(1), 2), S.with_splits(S.RES(1, horizon=4), 2)]
        jobs = _line_jobs(specs, ['splitinv', 'census', 'shutdown', 'cycle', 'schedule', 'sensors'], tier, e2q=20, e2t=60)
        # a model that has gone quiet: every terminal path is replayed through real consecutive simulate() calls
        jobs += _line_jobs([S.with_splits(S.QUIET(K)), S.with_splits(S.QUIET(0), 2)], ['splitinv', 'census', 'cycle'], tier,
                           e2q=400, e2t=2000)
        # assets created between the runs == the same assets created from an event at the split time
        jobs += _line_jobs([S.with_splits(S.LATE(1, horizon=3, creates=[[0, 1, 2], [6], [7], [10, 11]], name='c14'))],
                           ['splitinv', 'census', 'schedule', 'sensors', 'lifecycle'], tier)
        # devices re-wired between the runs == the same re-wiring done by an event at the split time
        jobs += _line_jobs([S.with_splits(S.REWIRE(K)), S.with_splits(S.REWIRE2(K))], ['splitinv', 'census', 'route'], tier)
        seeds = list(range(8 if not th else 24))
        for model in ('fan', 'merge', 'maint', 'res', 'group2', 'faults'):
            jobs.append(repro_job(f'SEED[{model}]', 'seed', model, seeds=seeds, offsets=[0, 1, 7], horizon=8))
            jobs.append(repro_job(f'SMT[{model}]', 'smt', model, ns=[1, 2, 3, 4], max_processes=[0, 1, 2, 3, None], horizon=6))
        jobs.append(repro_job('SMT12[merge]', 'smt', 'merge', ns=[12], max_processes=[0, 2], horizon=4))
        # default-named assets with id offsets that straddle a power of ten (..._9 / ..._10, ..._99 / ..._100)
        jobs.append(repro_job('SEED[merge_default]', 'seed', 'merge_default', seeds=seeds[:8], offsets=[0, 7, 8, 97, 98, 998], horizon=8))
        jobs.append(repro_job('HASH[merge]', 'hash', 'merge', seeds=[3], hashseeds=[1, 2, 77], horizon=8))
        jobs.append(repro_job('HASH[maint]', 'hash', 'maint', seeds=[3], hashseeds=[1, 2], horizon=8))
        jobs.append(repro_job('POOL[merge]', 'pool', 'merge', ns=[3], max_processes=[1, 2, None] if th else [2], horizon=6))
        return jobs
