'''Line coverage of the library under test by a check run (diagnostic; enabled by VERIF_COVER_DIR, never by a
registered command).  Uses sys.monitoring (Python 3.12): every line reports once, then its event is disabled,
so the overhead is negligible.  Each worker process writes <dir>/<pid>.json after every job.'''
import json
import os
import sys

_DIR = os.environ.get('VERIF_COVER_DIR')
_SEEN = set()
_PREFIX = None


def _line(code, lineno):
    f = code.co_filename
    if f.startswith(_PREFIX):
        _SEEN.add((f[len(_PREFIX):], lineno))
    return sys.monitoring.DISABLE


def start(repo):
    global _PREFIX
    if not _DIR or not hasattr(sys, 'monitoring'):
        return
    _PREFIX = os.path.join(os.path.realpath(repo), 'simprocesd') + os.sep
    os.makedirs(_DIR, exist_ok=True)
    m = sys.monitoring
    try:
        m.use_tool_id(m.COVERAGE_ID, 'verif-cover')
    except ValueError:
        return
    m.register_callback(m.COVERAGE_ID, m.events.LINE, _line)
    m.set_events(m.COVERAGE_ID, m.events.LINE)


def dump():
    if not _DIR or _PREFIX is None:
        return
    p = os.path.join(_DIR, f'{os.getpid()}.json')
    with open(p + '.tmp', 'w') as f:
        json.dump(sorted(_SEEN), f)
    os.replace(p + '.tmp', p)
