'''Bounded exhaustive exploration of the real simprocesd implementation.

Importing this package forces the simprocesd under test (default /repo, override
with SIMPROCESD_REPO for mutant trees) to the front of sys.path and asserts that
this is really the one imported.
'''
import os
import sys

REPO = os.environ.get('SIMPROCESD_REPO', '/repo')
VERIF = os.path.dirname(os.path.dirname(os.path.abspath(__file__)))

if sys.path[0] != REPO:
    sys.path.insert(0, REPO)
sys.setrecursionlimit(20000)
# The library must run with assertions enabled (they are part of its behaviour).
assert __debug__, 'run without -O'

import simprocesd  # noqa: E402

_f = os.path.realpath(simprocesd.__file__)
assert _f.startswith(os.path.realpath(REPO) + os.sep), \
    f'simprocesd imported from {_f}, expected under {REPO}'

# Guard reserved for hooks in /repo (none are needed; see DESIGN.md section 7).
os.environ.setdefault('SIMPROCESD_VERIF', '1')


class Violation(Exception):
    '''Raised by monitors / reference comparisons.'''

    def __init__(self, clause, detail=''):
        super().__init__(f'{clause}: {detail}')
        self.clause = clause
        self.detail = detail


class HarnessError(Exception):
    '''Something is wrong with the machinery itself (never a verdict).'''
