'''Bounded exhaustive exploration of the real simprocesd implementation.

Importing this package forces the simprocesd under test (default /repo, override
with SIMPROCESD_REPO for mutant trees) to the front of sys.path and asserts that
this is really the one imported.
'''
import os
import sys

REPO = os.environ.get('SIMPROCESD_REPO', '/repo')
VERIF = os.path.dirname(os.path.dirname(os.path.abspath(__file__)))

if sys.path[0] != REPO:
    sys.path.insert(0, REPO)
sys.setrecursionlimit(20000)
# The library must run with assertions enabled (they are part of its behaviour).
assert __debug__, 'run without -O'

import simprocesd  # noqa: E402

_f = os.path.realpath(simprocesd.__file__)
assert _f.startswith(os.path.realpath(REPO) + os.sep), \
    f'simprocesd imported from {_f}, expected under {REPO}'

# Guard reserved for hooks in /repo (none are needed; see DESIGN.md section 7).
os.environ.setdefault('SIMPROCESD_VERIF', '1')


class Violation(Exception):
    '''Raised by monitors / reference comparisons.'''

    def __init__(self, clause, detail=''):
        super().__init__(f'{clause}: {detail}')
        self.clause = clause
        self.detail = detail


class HarnessError(Exception):
    '''Something is wrong with the machinery itself (never a verdict).'''


_LIB = os.path.realpath(REPO) + os.sep


def library_origin(e):
    '''"file:function" if the exception was RAISED inside the library under test (innermost traceback frame in
    REPO/simprocesd), else None: an exception raised in harness code (a monitor reading an attribute that no longer
    exists, a harness bug) is a HARNESS-ERROR, never a verdict about the library.'''
    import traceback
    tb = traceback.extract_tb(e.__traceback__)
    if not tb:
        return None
    fr = tb[-1]
    f = os.path.realpath(fr.filename)
    if f.startswith(_LIB) and (os.sep + 'simprocesd' + os.sep) in f:
        return f'{os.path.basename(fr.filename)}:{fr.name}'
    if isinstance(e, RecursionError):
        for fr in reversed(tb):
            f = os.path.realpath(fr.filename)
            if f.startswith(_LIB):
                return f'{os.path.basename(fr.filename)}:{fr.name}'
    return None

if os.environ.get('VERIF_COVER_DIR'):       # diagnostic only (tools/coverage_report.py)
    from . import cover as _cover
    _cover.start(REPO)
