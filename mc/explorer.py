'''E1: fork-mode explicit-state explorer over real objects (DESIGN.md section 2).

World protocol (duck typed):
    menu()            -> list of labels (JSON-able tuples) enabled in this state
    apply(label)      -> ONE real transition + monitors (raises mc.Violation)
    done()            -> True when the run is over (no successors)
    final()           -> end-of-run obligations (raises mc.Violation)
    digest()          -> bytes, canonical digest of everything that can influence the future
    budget            -> remaining environment deviations (int)
    facts             -> list of strings noted during the last apply (vacuity counters)
Worlds are forked by pickling (2.6x faster than deepcopy here); everything inside a
world therefore has to be picklable (module-level classes, bound methods, partials).
'''
import io
import os
import pickle
import random
import sys
import time
import traceback

from . import Violation, HarnessError


class _Quiet:
    '''Captures library prints (ReservedResources.__del__, "Failed event" dumps).'''

    def __enter__(self):
        self._o = sys.stdout
        sys.stdout = io.StringIO()
        return self

    def __exit__(self, *a):
        sys.stdout = self._o


class ReplaySnap:
    '''Fallback snapshot of a world that cannot be pickled (the library under test has put a closure -- a lambda, a
    local function -- into its event queue or onto an asset): the recipe to build an equal world, i.e. the constructor
    arguments and the list of labels applied so far.  Restoring costs a linear replay instead of an unpickling; on the
    pinned tree it never happens.'''

    def __init__(self, cls, args, kwargs, trail):
        self.cls, self.args, self.kwargs, self.trail = cls, args, kwargs, list(trail)

    def build(self):
        with _Quiet():
            w = self.cls(*self.args(), **self.kwargs)
            for lab in self.trail:
                w.apply(lab)
        return w


def snapshot(world):
    try:
        return pickle.dumps(world, pickle.HIGHEST_PROTOCOL)
    except (AttributeError, pickle.PicklingError, TypeError):
        r = getattr(world, 'recipe', None)
        if r is None:
            raise
        return r()


def restore(snap):
    if isinstance(snap, ReplaySnap):
        return snap.build()
    return pickle.loads(snap)


class Result:
    def __init__(self, name):
        self.name = name
        self.states = 0
        self.transitions = 0
        self.branching_states = 0
        self.max_menu = 0
        self.max_tie = 0
        self.terminals = {}      # final digest hex -> path (at most max_terminal_paths kept)
        self.terminal_digests = set()
        self.violations = []     # dicts
        self.facts = {}
        self.capped = None       # reason string when a cap was hit
        self.max_depth = 0
        self.wall = 0.0
        self.revisits = 0
        self.witnesses = []      # paths ending in a label of interest (e.g. 'resume'), for extra E2 validation

    def to_json(self):
        return {
            'scenario': self.name, 'states': self.states, 'transitions': self.transitions,
            'branching_states': self.branching_states, 'max_menu': self.max_menu,
            'max_tie_group': self.max_tie,
            'distinct_final_states': len(self.terminal_digests), 'max_depth': self.max_depth,
            'violations': len(self.violations), 'facts': self.facts, 'capped': self.capped,
            'wall_s': round(self.wall, 3)}


def explore(world0, name='', max_states=200000, max_seconds=600.0, max_depth=4000,
            seed=0, max_violations=40, stop_on_violation=False, max_terminal_paths=5000,
            witness_labels=(), max_witnesses=3000):
    '''Depth-first search with state matching.  Returns a Result.'''
    t0 = time.time()
    if os.environ.get('VERIF_FAST_FAIL'):
        stop_on_violation = True
    res = Result(name)
    rnd = random.Random(seed)
    root = world0.recipe() if hasattr(world0, 'recipe') else None

    def restore_at(snap, path):
        '''restore(); if the pickle cannot be LOADED (e.g. the library made an asset hash by an attribute that is not
        there yet while its container is being rebuilt), the state is rebuilt by replaying its path from the root.'''
        try:
            return restore(snap)
        except HarnessError:
            raise
        except Exception:
            if root is None:
                raise
            return ReplaySnap(root.cls, root.args, root.kwargs, list(root.trail) + list(path)).build()

    with _Quiet():
        d0 = world0.digest()
        seen = {d0: world0.budget}
        stack = [(snapshot(world0), ())]
        res.states = 1
        while stack:
            if res.states >= max_states:
                res.capped = f'max_states={max_states}'
                break
            if time.time() - t0 > max_seconds:
                res.capped = f'max_seconds={max_seconds}'
                break
            snap, path = stack.pop()
            w = restore_at(snap, path)
            labels = list(w.menu())
            if not labels:
                raise HarnessError(f'{name}: no enabled transition in a non-final state at {path}')
            tie = getattr(w, 'last_tie_size', 0)
            res.max_tie = max(res.max_tie, tie)
            if len(labels) > 1:
                res.branching_states += 1
            res.max_menu = max(res.max_menu, len(labels))
            if seed:
                rnd.shuffle(labels)
            depth = len(path) + 1
            res.max_depth = max(res.max_depth, depth)
            n = len(labels)
            for i, label in enumerate(labels):
                w2 = w if i == n - 1 else restore_at(snap, path)
                p2 = path + (label,)
                try:
                    w2.apply(label)
                    res.transitions += 1
                    if witness_labels and label[0] in witness_labels and len(res.witnesses) < max_witnesses:
                        res.witnesses.append(p2)
                    for f in w2.facts:
                        res.facts[f] = res.facts.get(f, 0) + 1
                    if depth >= max_depth:
                        raise Violation('termination', f'run did not finish within {max_depth} steps')
                    if w2.done():
                        n0 = len(w2.facts)
                        w2.final()
                        for f in w2.facts[n0:]:
                            res.facts[f] = res.facts.get(f, 0) + 1
                        dgb = w2.digest()
                        if dgb not in res.terminal_digests:
                            res.terminal_digests.add(dgb)
                            if len(res.terminals) < max_terminal_paths:
                                res.terminals[dgb.hex()] = p2
                            if dgb not in seen:
                                res.states += 1       # distinct states = |expanded or final| (independent of the search order)
                        continue
                except Violation as v:
                    res.violations.append({'clause': v.clause, 'detail': v.detail,
                                           'path': [list(x) for x in p2], 'scenario': name})
                    if stop_on_violation or len(res.violations) >= max_violations or getattr(v, 'fatal', False):
                        res.capped = res.capped or ('stopped after violations' if not stop_on_violation else None)
                        if getattr(v, 'fatal', False):
                            res.capped = 'stopped: an event of the library does not return (every further branch would cost the same time-out)'
                        stack.clear()
                        break
                    continue
                except HarnessError:
                    raise
                except Exception as e:
                    from . import library_origin
                    where = library_origin(e)
                    if where is None:
                        # raised in harness code: never a verdict about the library
                        raise HarnessError(f'{name}: {type(e).__name__}: {str(e)[:300]} in harness code at '
                                           f'{"".join(traceback.format_tb(e.__traceback__)[-2:])[:600]} on path {p2[-3:]}')
                    res.violations.append({'clause': 'exception',
                                           'detail': f'{type(e).__name__} at {where}: {str(e)[:160]}',
                                           'path': [list(x) for x in p2], 'scenario': name})
                    if stop_on_violation or len(res.violations) >= max_violations:
                        stack.clear()
                        break
                    continue
                dg = w2.digest()
                b = w2.budget
                old = seen.get(dg)
                if old is not None and old >= b:
                    res.revisits += 1
                    continue
                if old is None and dg not in res.terminal_digests:
                    res.states += 1
                seen[dg] = b
                stack.append((snapshot(w2), p2))
    res.wall = time.time() - t0
    return res
