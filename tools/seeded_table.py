#!/venv/bin/python
'''Prints the markdown table of seeded changes (seeded/INDEX.json + the meta.json written by intake_seeded.py).'''
import json
import os
ROOT = os.path.dirname(os.path.dirname(os.path.abspath(__file__)))
idx = json.load(open(os.path.join(ROOT, 'seeded', 'INDEX.json')))
print('| id | change | needs | first round | detected now by (quick tier) |')
print('|---|---|---|---|---|')
for k in sorted(idx):
    mp = os.path.join(ROOT, 'seeded', k, 'meta.json')
    det = '(retired: seeded/_retired)' if os.path.isdir(os.path.join(ROOT, 'seeded', '_retired', k)) else '(not taken in)'
    if os.path.exists(mp):
        m = json.load(open(mp))
        ok = all(m['confirmed'].values())
        parts = []
        for c, r in sorted(m.get('checks', {}).items()):
            if r['exit'] == 1 and r['violation_lines'] > 0:
                cl = ''
                if r['first_details']:
                    d = r['first_details'][0]
                    cl = d.split('clause=')[1].split(' ')[0] if 'clause=' in d else ''
                parts.append(f'{c} ({cl})' if cl else c)
        det = ', '.join(parts) if parts else '**not detected**'
        if not ok:
            det += ' [NOT CONFIRMED]'
    ch, needs, first = idx[k]
    print(f'| {k} | {ch} | {needs} | {first} | {det} |')
