#!/venv/bin/python
'''Which lines of the library do the checks execute at all?  (diagnostic for driver gaps; not a check)

usage: coverage_report.py run <dir> [IDs...]     run the quick tier of the checks with line coverage into <dir>
       coverage_report.py report <dir>           per file: executable lines never executed, grouped by function
'''
import ast
import glob
import json
import os
import subprocess
import sys

ROOT = os.path.dirname(os.path.dirname(os.path.abspath(__file__)))
REPO = os.environ.get('SIMPROCESD_REPO', '/repo')


def executable_lines(path):
    src = open(path).read()
    tree = ast.parse(src)
    out = {}          # line -> qualified function name

    def visit(node, qual):
        for ch in ast.iter_child_nodes(node):
            if isinstance(ch, (ast.FunctionDef, ast.AsyncFunctionDef, ast.ClassDef)):
                q = f'{qual}.{ch.name}' if qual else ch.name
                visit(ch, q)
            else:
                if isinstance(ch, ast.stmt) and qual and not (isinstance(ch, ast.Expr) and isinstance(ch.value, ast.Constant)):
                    out[ch.lineno] = qual
                visit(ch, qual)
    visit(tree, '')
    # only statements inside functions
    funcs = set()
    for n in ast.walk(tree):
        if isinstance(n, (ast.FunctionDef, ast.AsyncFunctionDef)):
            for st in ast.walk(n):
                if isinstance(st, ast.stmt) and st is not n:
                    funcs.add(st.lineno)
    return {l: q for l, q in out.items() if l in funcs}


def main():
    cmd, d = sys.argv[1], os.path.abspath(sys.argv[2])
    if cmd == 'run':
        ids = sys.argv[3:] or [f'C{i:02d}' for i in range(1, 21)]
        env = dict(os.environ, VERIF_COVER_DIR=d, VERIF_OUT_DIR=os.path.join(d, 'out'))
        for p in ids:
            r = subprocess.run([os.path.join(ROOT, 'run_check.py'), p, '--tier', 'quick'], env=env, capture_output=True, text=True)
            print(p, 'exit', r.returncode, flush=True)
        return
    seen = set()
    for f in glob.glob(os.path.join(d, '*.json')):
        for fn, ln in json.load(open(f)):
            seen.add((fn, ln))
    base = os.path.join(REPO, 'simprocesd')
    tot = hit = 0
    for dirpath, _, files in os.walk(os.path.join(base, 'model')):
        if 'tests' in dirpath:
            continue
        for fn in sorted(files):
            if not fn.endswith('.py'):
                continue
            path = os.path.join(dirpath, fn)
            rel = os.path.relpath(path, base)
            ex = executable_lines(path)
            miss = {}
            for l, q in sorted(ex.items()):
                tot += 1
                if (rel, l) in seen:
                    hit += 1
                else:
                    miss.setdefault(q, []).append(l)
            if miss:
                print(f'--- {rel}: {sum(len(v) for v in miss.values())} of {len(ex)} statements never executed')
                for q, ls in miss.items():
                    print(f'    {q}: lines {ls}')
    print(f'TOTAL: {hit} of {tot} statements inside functions executed ({100 * hit / max(tot, 1):.1f}%)')


if __name__ == '__main__':
    main()
