#!/venv/bin/python
'''Regenerates the table of DESIGN.md 12.3 from sweep/tiers/*.json (written by every full run of a check).'''
import glob
import json
import os

ROOT = os.path.dirname(os.path.dirname(os.path.abspath(__file__)))


def k(n):
    return f'{n / 1e6:.2f}M' if n >= 1e6 else f'{n / 1e3:.0f}k' if n >= 1000 else str(n)


def main():
    rows = {}
    for f in glob.glob(os.path.join(ROOT, 'sweep', 'tiers', '*.json')):
        d = json.load(open(f))
        rows.setdefault(d['property_id'], {})[d['tier']] = d
    print('| id | jobs (non-trivial) q / t | states / transitions quick | wall quick | states / transitions thorough | wall thorough | E2 / linear replays q / t | caps |')
    print('|---|---|---|---|---|---|---|---|')
    for pid in sorted(rows):
        q, t = rows[pid].get('quick'), rows[pid].get('thorough')
        def cell(d, f):
            return f(d) if d else '-'
        print(f'| {pid} | {cell(q, lambda d: f"{d['coverage']['evaluations']} ({d['coverage']['distinct_nontrivial']})")} / '
              f'{cell(t, lambda d: f"{d['coverage']['evaluations']} ({d['coverage']['distinct_nontrivial']})")} | '
              f'{cell(q, lambda d: k(d["coverage"]["states"]) + " / " + k(d["coverage"]["transitions"]))} | '
              f'{cell(q, lambda d: str(round(d["wall_s"])) + " s")} | '
              f'{cell(t, lambda d: k(d["coverage"]["states"]) + " / " + k(d["coverage"]["transitions"]))} | '
              f'{cell(t, lambda d: str(round(d["wall_s"])) + " s")} | '
              f'{cell(q, lambda d: k(d["coverage"]["traces_validated_against_impl"]))} / '
              f'{cell(t, lambda d: k(d["coverage"]["traces_validated_against_impl"]))} | '
              f'{cell(t, lambda d: len(d["coverage"]["caps_hit"])) if t else cell(q, lambda d: len(d["coverage"]["caps_hit"]))} |')


if __name__ == '__main__':
    main()
