#!/venv/bin/python
'''Detection demonstration: apply a patch to a SCRATCH COPY of /repo (never to /repo itself), run the repository's
own test suite on it (must still pass), run the named checks against the copy (SIMPROCESD_REPO) with evidence and
replays redirected to a scratch directory, print one line per check, remove everything.

usage: try_mutant.py <patch.diff> <PROP>[,<PROP>...] [--tier quick] [--no-tests] [--keep]
'''
import argparse
import os
import shutil
import subprocess
import sys
import tempfile

ROOT = os.path.dirname(os.path.dirname(os.path.abspath(__file__)))


def main():
    ap = argparse.ArgumentParser()
    ap.add_argument('patch')
    ap.add_argument('props')
    ap.add_argument('--tier', default='quick')
    ap.add_argument('--no-tests', action='store_true')
    ap.add_argument('--only', default=None)
    a = ap.parse_args()
    tmp = tempfile.mkdtemp(prefix='mut_', dir=os.environ.get('MUT_TMP', '/tmp'))
    try:
        repo = os.path.join(tmp, 'repo')
        subprocess.run(['rsync', '-a', '--exclude', '.git', '--exclude', '__pycache__', '/repo/', repo + '/'], check=True)
        r = subprocess.run(['patch', '-p1', '-s', '-d', repo, '-i', os.path.abspath(a.patch)], capture_output=True, text=True)
        if r.returncode != 0:
            print('PATCH FAILED', r.stdout, r.stderr)
            return 3
        if not a.no_tests:
            t = subprocess.run(['/venv/bin/python', '-m', 'pytest', '-q', '-p', 'no:cacheprovider', '--timeout=900',
                                '-x', 'simprocesd/tests/model'], cwd=repo, capture_output=True, text=True)
            tail = t.stdout.strip().splitlines()[-1] if t.stdout.strip() else t.stderr[-200:]
            print(f'suite on mutant: rc={t.returncode} {tail}')
        env = dict(os.environ, SIMPROCESD_REPO=repo, VERIF_OUT_DIR=os.path.join(tmp, 'out'))
        rc_all = 0
        for p in a.props.split(','):
            cmd = [os.path.join(ROOT, 'run_check.py'), p, '--tier', a.tier]
            if a.only:
                cmd += ['--only', a.only]
            c = subprocess.run(cmd, env=env, capture_output=True, text=True, cwd=ROOT)
            lines = c.stdout.strip().splitlines()
            viol = [l for l in lines if l.startswith('VIOLATION')]
            print(f'{p}: exit={c.returncode} violations={len(viol)}')
            for l in lines[:6]:
                print('   ', l[:400])
            if c.returncode == 2 or (c.returncode != 0 and not viol):
                print(c.stdout[-1500:], c.stderr[-1500:])
            rc_all = max(rc_all, c.returncode)
        return rc_all
    finally:
        shutil.rmtree(tmp, ignore_errors=True)


if __name__ == '__main__':
    sys.exit(main())
