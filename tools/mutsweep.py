#!/venv/bin/python
'''First-order mutation sweep (detection demonstration at scale; NOT part of any check).

For every mutant of the listed library files (one AST node changed): build a scratch copy, run the repository's own
suite; if the suite still passes, run the quick tier of the checks mapped to that file against the copy (fast-fail: a
job stops at its first violation) and record which check reported a VIOLATION.  Results are appended to a JSON-lines
file so that the sweep can be interrupted and resumed.

usage: mutsweep.py --out <file.jsonl> [--files a.py,b.py] [--workers 3] [--procs 5] [--limit N] [--shard i/n]
'''
import argparse
import ast
import copy
import json
import multiprocessing as mp
import os
import shutil
import subprocess
import sys
import tempfile
import time

ROOT = os.path.dirname(os.path.dirname(os.path.abspath(__file__)))
LIB = 'simprocesd/model'

FILE_CHECKS = {
    'simulation.py': ['C07', 'C01', 'C15', 'C06', 'C13', 'C14'],
    'system.py': ['C20', 'C14', 'C01', 'C16'],
    'resource_manager.py': ['C09', 'C10', 'C15', 'C11', 'C03'],
    'factory_floor/asset.py': ['C16', 'C20'],
    'factory_floor/part.py': ['C08', 'C02'],
    'factory_floor/batch.py': ['C17', 'C16', 'C08'],
    'factory_floor/part_flow_controller.py': ['C08', 'C03', 'C02'],
    'factory_floor/part_handler.py': ['C02', 'C03', 'C06', 'C04', 'C08', 'C15'],
    'factory_floor/part_processor.py': ['C13', 'C06', 'C11', 'C15', 'C03', 'C02'],
    'factory_floor/buffer.py': ['C05', 'C03', 'C15', 'C04', 'C17'],
    'factory_floor/source.py': ['C02', 'C06', 'C03', 'C15', 'C16', 'C08', 'C04'],
    'factory_floor/sink.py': ['C02', 'C16', 'C06', 'C04', 'C08', 'C17'],
    'factory_floor/part_batcher.py': ['C17', 'C02', 'C03'],
    'factory_floor/group.py': ['C08', 'C02', 'C03'],
    'factory_floor/decision_gate.py': ['C08', 'C02'],
    'factory_floor/maintainer.py': ['C12', 'C13', 'C16', 'C15'],
    'factory_floor/action_scheduler.py': ['C18', 'C15'],
    'sensors/sensor.py': ['C19', 'C20'],
    'sensors/part_sensor.py': ['C19'],
    'cms/cms.py': ['C19'],
}

CMP = {ast.Lt: ast.LtE, ast.LtE: ast.Lt, ast.Gt: ast.GtE, ast.GtE: ast.Gt, ast.Eq: ast.NotEq, ast.NotEq: ast.Eq,
       ast.Is: ast.IsNot, ast.IsNot: ast.Is, ast.In: ast.NotIn, ast.NotIn: ast.In}
BIN = {ast.Add: ast.Sub, ast.Sub: ast.Add, ast.Mult: ast.Div, ast.Div: ast.Mult}


class Mutator(ast.NodeTransformer):
    '''Applies the k-th applicable mutation (counting in visiting order); self.count = number of sites seen.'''

    def __init__(self, target):
        self.target = target
        self.count = 0
        self.desc = None
        self.infunc = 0

    def hit(self, node, desc):
        self.count += 1
        if self.count - 1 == self.target:
            self.desc = f'L{getattr(node, "lineno", "?")}: {desc}'
            return True
        return False

    def visit_FunctionDef(self, node):
        # do not mutate docstrings / signatures; visit body
        self.infunc += 1
        node.body = [self.visit(b) for b in node.body]
        self.infunc -= 1
        return node

    def visit_Compare(self, node):
        self.generic_visit(node)
        for i, op in enumerate(node.ops):
            if type(op) in CMP and self.hit(node, f'{type(op).__name__} -> {CMP[type(op)].__name__}'):
                node = copy.deepcopy(node)
                node.ops[i] = CMP[type(op)]()
                return node
        return node

    def visit_BinOp(self, node):
        self.generic_visit(node)
        if type(node.op) in BIN and self.hit(node, f'{type(node.op).__name__} -> {BIN[type(node.op)].__name__}'):
            node = copy.deepcopy(node)
            node.op = BIN[type(node.op)]()
        return node

    def visit_AugAssign(self, node):
        self.generic_visit(node)
        if type(node.op) in BIN and self.hit(node, f'aug {type(node.op).__name__} -> {BIN[type(node.op)].__name__}'):
            node = copy.deepcopy(node)
            node.op = BIN[type(node.op)]()
        return node

    def visit_BoolOp(self, node):
        self.generic_visit(node)
        if self.hit(node, 'and <-> or'):
            node = copy.deepcopy(node)
            node.op = ast.Or() if isinstance(node.op, ast.And) else ast.And()
        return node

    def visit_UnaryOp(self, node):
        self.generic_visit(node)
        if isinstance(node.op, ast.Not) and self.hit(node, 'remove not'):
            return node.operand
        return node

    def visit_Constant(self, node):
        if self.infunc and isinstance(node.value, bool):
            if self.hit(node, f'{node.value} -> {not node.value}'):
                return ast.copy_location(ast.Constant(not node.value), node)
        elif self.infunc and isinstance(node.value, (int, float)) and not isinstance(node.value, bool) and node.value in (0, 1, -1):
            if self.hit(node, f'{node.value} -> {node.value + 1}'):
                return ast.copy_location(ast.Constant(node.value + 1), node)
        return node

    def visit_Expr(self, node):
        # statement that is a bare call: delete it (replace by pass)
        if self.infunc and isinstance(node.value, ast.Call):
            if self.hit(node, 'delete call statement ' + ast.unparse(node.value)[:60]):
                return ast.copy_location(ast.Pass(), node)
        self.generic_visit(node)
        return node

    def visit_If(self, node):
        self.generic_visit(node)
        if self.hit(node, 'negate if condition'):
            node = copy.deepcopy(node)
            node.test = ast.UnaryOp(ast.Not(), node.test)
        return node

    def visit_Return(self, node):
        self.generic_visit(node)
        if isinstance(node.value, ast.Constant) and isinstance(node.value.value, bool):
            return node        # covered by Constant
        return node


def mutate(src, k):
    tree = ast.parse(src)
    m = Mutator(k)
    new = m.visit(tree)
    if m.desc is None:
        return None, None, m.count
    ast.fix_missing_locations(new)
    return ast.unparse(new), m.desc, m.count


def count_sites(src):
    return mutate(src, 10 ** 9)[2]


def run_one(task):
    rel, k, procs, tier, checks = task
    srcpath = os.path.join('/repo', LIB, rel)
    src = open(srcpath).read()
    new, desc, _ = mutate(src, k)
    rec = {'file': rel, 'k': k, 'desc': desc}
    if new is None:
        rec['status'] = 'no-site'
        return rec
    try:
        compile(new, rel, 'exec')
    except SyntaxError:
        rec['status'] = 'syntax'
        return rec
    tmp = tempfile.mkdtemp(prefix='msw_', dir='/tmp')
    try:
        repo = os.path.join(tmp, 'repo')
        subprocess.run(['rsync', '-a', '--exclude', '.git', '--exclude', '__pycache__', '--exclude', 'examples', '/repo/', repo + '/'], check=True)
        with open(os.path.join(repo, LIB, rel), 'w') as f:
            f.write(new)
        t = subprocess.run(['/venv/bin/python', '-m', 'pytest', '-q', '-x', '-p', 'no:cacheprovider', '--timeout=120',
                            'simprocesd/tests/model'], cwd=repo, capture_output=True, text=True, timeout=900)
        if t.returncode != 0:
            rec['status'] = 'killed-by-suite'
            return rec
        rec['status'] = 'survives-suite'
        env = dict(os.environ, SIMPROCESD_REPO=repo, VERIF_OUT_DIR=os.path.join(tmp, 'out'), VERIF_FAST_FAIL='1')
        rec['checks'] = {}
        for p in checks:
            t0 = time.time()
            try:
                c = subprocess.run([os.path.join(ROOT, 'run_check.py'), p, '--tier', tier, '--procs', str(procs)], env=env,
                                   capture_output=True, text=True, cwd=ROOT, timeout=3600)
                lines = c.stdout.splitlines()
                viol = [l for l in lines if l.startswith('VIOLATION')]
                det = [l.strip() for l in lines if l.strip().startswith('scenario=')][:1]
                rec['checks'][p] = {'exit': c.returncode, 'violations': len(viol), 'first': det[0][:240] if det else '',
                                    'harness': [l[:200] for l in lines if l.startswith('HARNESS-ERROR')][:1],
                                    'wall': round(time.time() - t0, 1)}
                if c.returncode == 1 and viol:
                    rec['detected_by'] = p
                    break
            except subprocess.TimeoutExpired:
                rec['checks'][p] = {'exit': 'timeout'}
        rec.setdefault('detected_by', None)
        return rec
    finally:
        shutil.rmtree(tmp, ignore_errors=True)


def main():
    ap = argparse.ArgumentParser()
    ap.add_argument('--out', required=True)
    ap.add_argument('--files', default=None)
    ap.add_argument('--workers', type=int, default=3)
    ap.add_argument('--procs', type=int, default=5)
    ap.add_argument('--limit', type=int, default=None)
    ap.add_argument('--stride', type=int, default=1, help='take every n-th mutation site')
    ap.add_argument('--tier', default='quick')
    ap.add_argument('--nchecks', type=int, default=2, help='how many of the mapped checks (most relevant first) to run')
    ap.add_argument('--recheck', default=None, help='JSON-lines file of an earlier sweep: re-run only its undetected survivors, '
                                                    'with the mapped checks that sweep did not run (skip the first --skip)')
    ap.add_argument('--skip', type=int, default=0)
    a = ap.parse_args()
    for k_ in FILE_CHECKS:
        FILE_CHECKS[k_] = FILE_CHECKS[k_][:a.nchecks]
    files = a.files.split(',') if a.files else list(FILE_CHECKS)
    done = set()
    if os.path.exists(a.out):
        for l in open(a.out):
            try:
                r = json.loads(l)
                done.add((r['file'], r['k']))
            except Exception:
                pass
    tasks = []
    if a.recheck:
        import re
        sites = {}

        def site_of(rel, desc):
            '''The library may have been repaired since the sweep: find today's site with the same description
            (nearest line number) instead of trusting the old index.'''
            if rel not in sites:
                src = open(os.path.join('/repo', LIB, rel)).read()
                n = count_sites(src)
                sites[rel] = [(k, mutate(src, k)[1]) for k in range(n)]
            m = re.match(r'L(\d+): (.*)', desc or '')
            if not m:
                return None
            line, what = int(m.group(1)), m.group(2)
            cands = [(abs(int(re.match(r'L(\d+)', d).group(1)) - line), k) for k, d in sites[rel]
                     if d and re.match(r'L\d+: (.*)', d).group(1) == what]
            return min(cands)[1] if cands else None

        for l in open(a.recheck):
            r = json.loads(l)
            if r.get('status') == 'survives-suite' and not r.get('detected_by'):
                k = site_of(r['file'], r.get('desc'))
                if k is None or (r['file'], k) in done:
                    continue
                rest = FILE_CHECKS[r['file']][a.skip:]
                if rest:
                    tasks.append((r['file'], k, a.procs, a.tier, rest))
        files = []
    for rel in files:
        n = count_sites(open(os.path.join('/repo', LIB, rel)).read())
        for k in range(0, n, a.stride):
            if (rel, k) not in done:
                tasks.append((rel, k, a.procs, a.tier, FILE_CHECKS[rel]))
    if a.limit:
        tasks = tasks[:a.limit]
    print(f'{len(tasks)} mutants to do ({len(done)} already done)', flush=True)
    with mp.get_context('spawn').Pool(a.workers) as pool, open(a.out, 'a') as out:
        for rec in pool.imap_unordered(run_one, tasks, chunksize=1):
            out.write(json.dumps(rec) + '\n')
            out.flush()
            print(rec['file'], rec['k'], rec.get('status'), rec.get('detected_by'), rec.get('desc'), flush=True)


if __name__ == '__main__':
    main()
