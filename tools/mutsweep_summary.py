#!/venv/bin/python
'''Summarises a mutation-sweep JSON-lines file into sweep/mutsweep_summary.json (and prints it).'''
import collections
import json
import os
import sys
ROOT = os.path.dirname(os.path.dirname(os.path.abspath(__file__)))
srcs = sys.argv[1:] or ['/tmp/mutsweep.jsonl']
# several files: the first sweep and later re-checks of its undetected survivors (other mapped checks, newer checks);
# records of the same site (file + description) are merged: union of the checks run, detected if any run detected it
recs = {}
for n, src in enumerate(srcs):
    for l in open(src):
        try:
            r = json.loads(l)
        except Exception:
            continue
        if n == 0:
            recs[(r['file'], r['k'])] = r
            continue
        if r.get('status') != 'survives-suite':
            continue          # (site matched to a neighbouring mutation that the suite kills)
        # a re-check names today's site index; the sweep's record is found by file + description
        olds = [o for o in recs.values() if o['file'] == r['file'] and o.get('desc') == r.get('desc')
                and o.get('status') == 'survives-suite']
        for old in olds:
            ch = dict(old.get('checks', {}))
            for c, v in r.get('checks', {}).items():
                if c not in ch or v.get('exit') == 1:
                    ch[c] = v
            old['checks'] = ch
            old['detected_by'] = old.get('detected_by') or r.get('detected_by')
by = collections.Counter()
per_file = collections.defaultdict(collections.Counter)
undet = []
herr = []
for r in recs.values():
    st = r.get('status')
    if st == 'survives-suite':
        st = 'detected' if r.get('detected_by') else 'undetected'
        if any(c.get('exit') == 2 for c in r.get('checks', {}).values()) and not r.get('detected_by'):
            st = 'harness-error'
            herr.append({'file': r['file'], 'k': r['k'], 'desc': r['desc']})
        elif st == 'undetected':
            undet.append({'file': r['file'], 'k': r['k'], 'desc': r['desc'], 'checks_run': sorted(r.get('checks', {}))})
    by[st] += 1
    per_file[r['file']][st] += 1
out = {'mutants': len(recs), 'by_outcome': dict(by),
       'per_file': {f: dict(c) for f, c in sorted(per_file.items())},
       'undetected_by_the_two_mapped_checks': undet, 'harness_errors': herr,
       'note': 'survivors of the repository suite were run against the quick tier of the checks mapped to the file '
               '(two in the first sweep, further ones in re-checks; fast-fail); "undetected" mutants are reviewed in DESIGN.md 12.7 (equivalent / not property-breaking / gap)'}
os.makedirs(os.path.join(ROOT, 'evidence'), exist_ok=True)
json.dump(out, open(os.path.join(ROOT, 'sweep', 'mutsweep_summary.json'), 'w'), indent=1)
print(json.dumps({k: out[k] for k in ('mutants', 'by_outcome')}, indent=1))
for u in undet[:400]:
    print('UNDETECTED', u['file'], u['k'], u['desc'])
