#!/venv/bin/python
'''Summarises a mutation-sweep JSON-lines file into sweep/mutsweep_summary.json (and prints it).'''
import collections
import json
import os
import sys
ROOT = os.path.dirname(os.path.dirname(os.path.abspath(__file__)))
src = sys.argv[1] if len(sys.argv) > 1 else '/tmp/mutsweep.jsonl'
recs = {}
for l in open(src):
    try:
        r = json.loads(l)
        recs[(r['file'], r['k'])] = r
    except Exception:
        pass
by = collections.Counter()
per_file = collections.defaultdict(collections.Counter)
undet = []
herr = []
for r in recs.values():
    st = r.get('status')
    if st == 'survives-suite':
        st = 'detected' if r.get('detected_by') else 'undetected'
        if any(c.get('exit') == 2 for c in r.get('checks', {}).values()) and not r.get('detected_by'):
            st = 'harness-error'
            herr.append({'file': r['file'], 'k': r['k'], 'desc': r['desc']})
        elif st == 'undetected':
            undet.append({'file': r['file'], 'k': r['k'], 'desc': r['desc'], 'checks_run': sorted(r.get('checks', {}))})
    by[st] += 1
    per_file[r['file']][st] += 1
out = {'mutants': len(recs), 'by_outcome': dict(by),
       'per_file': {f: dict(c) for f, c in sorted(per_file.items())},
       'undetected_by_the_two_mapped_checks': undet, 'harness_errors': herr,
       'note': 'survivors of the repository suite were run against the quick tier of the two checks mapped to the file '
               '(fast-fail); "undetected" mutants are reviewed in DESIGN.md 12.7 (equivalent / not property-breaking / gap)'}
os.makedirs(os.path.join(ROOT, 'evidence'), exist_ok=True)
json.dump(out, open(os.path.join(ROOT, 'sweep', 'mutsweep_summary.json'), 'w'), indent=1)
print(json.dumps({k: out[k] for k in ('mutants', 'by_outcome')}, indent=1))
for u in undet[:400]:
    print('UNDETECTED', u['file'], u['k'], u['desc'])
