#!/venv/bin/python
'''Intake of a seeded property-breaking change produced by an independent sub-agent.

usage: intake_seeded.py <variant dir with patch.diff + demo.py [+ notes.md]> <seed id> <PROP> [--checks P1,P2] [--tier quick]

Confirms, in scratch copies of /repo (never in /repo): the patch applies; the repository's own suite still passes with
it; demo.py fails with it and passes without it.  Then runs the named checks against the patched copy and records
everything in /verif/seeded/<seed id>/ (patch.diff, demo.py, notes.md, meta.json).  Scratch copies are removed.
'''
import argparse
import json
import os
import shutil
import subprocess
import sys
import tempfile
import time

ROOT = os.path.dirname(os.path.dirname(os.path.abspath(__file__)))


def sh(cmd, cwd=None, env=None, timeout=3600):
    r = subprocess.run(cmd, cwd=cwd, env=env, capture_output=True, text=True, timeout=timeout)
    return r.returncode, r.stdout, r.stderr


def main():
    ap = argparse.ArgumentParser()
    ap.add_argument('variant')
    ap.add_argument('seed_id')
    ap.add_argument('prop')
    ap.add_argument('--checks', default=None)
    ap.add_argument('--tier', default='quick')
    ap.add_argument('--needs', default='')
    a = ap.parse_args()
    checks = (a.checks or a.prop).split(',')
    patch = os.path.join(a.variant, 'patch.diff')
    demo = os.path.join(a.variant, 'demo.py')
    tmp = tempfile.mkdtemp(prefix='seed_', dir='/tmp')
    meta = {'seed_id': a.seed_id, 'breaks_property': a.prop, 'needs_to_manifest': a.needs, 'ran': [], 'confirmed': {}}
    try:
        clean = os.path.join(tmp, 'clean')
        mut = os.path.join(tmp, 'mut')
        for d in (clean, mut):
            subprocess.run(['rsync', '-a', '--exclude', '.git', '--exclude', '__pycache__', '/repo/', d + '/'], check=True)
        rc, o, e = sh(['patch', '-p1', '-s', '-d', mut, '-i', os.path.abspath(patch)])
        meta['confirmed']['patch_applies'] = rc == 0
        if rc != 0:
            print('PATCH FAILED', o, e)
            return 3
        suite = ['/venv/bin/python', '-m', 'pytest', '-q', '-p', 'no:cacheprovider', '--timeout=900',
                 '--continue-on-collection-errors', 'simprocesd/tests']
        rc, o, e = sh(suite, cwd=mut)
        tail = (o.strip().splitlines() or [''])[-1]
        meta['ran'].append('cd <patched copy> && ' + ' '.join(suite) + '  ->  ' + tail)
        meta['confirmed']['suite_passes_with_change'] = ('150 passed' in tail)
        print('suite with change:', tail)
        env = dict(os.environ, PYTHONHASHSEED='0')
        res = {}
        for label, d in (('with_change', mut), ('without_change', clean)):
            shutil.copy(demo, os.path.join(d, '_demo.py'))
            rc, o, e = sh(['/venv/bin/python', '_demo.py'], cwd=d, env=env, timeout=600)
            res[label] = rc
            meta['ran'].append(f'cd <{label} copy> && /venv/bin/python demo.py  ->  exit {rc}: ' + (o.strip().splitlines() or [''])[-1][:200])
            print(f'demo {label}: exit {rc}')
            os.remove(os.path.join(d, '_demo.py'))
        meta['confirmed']['demo_fails_with_change'] = res['with_change'] != 0
        meta['confirmed']['demo_passes_without_change'] = res['without_change'] == 0
        out = os.path.join(tmp, 'out')
        env = dict(os.environ, SIMPROCESD_REPO=mut, VERIF_OUT_DIR=out)
        meta['checks'] = {}
        for p in checks:
            t0 = time.time()
            rc, o, e = sh([os.path.join(ROOT, 'run_check.py'), p, '--tier', a.tier], cwd=ROOT, env=env, timeout=7200)
            lines = o.strip().splitlines()
            viol = [l for l in lines if l.startswith('VIOLATION')]
            detail = [l.strip() for l in lines if l.strip().startswith('scenario=')][:3]
            meta['checks'][p] = {'tier': a.tier, 'exit': rc, 'violation_lines': len(viol), 'first_details': [d[:300] for d in detail],
                                 'wall_s': round(time.time() - t0, 1)}
            meta['ran'].append(f'SIMPROCESD_REPO=<patched copy> ./run_check.py {p} --tier {a.tier}  ->  exit {rc}, {len(viol)} VIOLATION line(s)')
            print(f'{p}: exit={rc} violations={len(viol)}')
            for d in detail[:2]:
                print('    ', d[:300])
            if rc == 2 or (rc != 0 and not viol):
                print(o[-2000:], e[-2000:])
        meta['detected_by'] = sorted(p for p, r in meta['checks'].items() if r['exit'] == 1 and r['violation_lines'] > 0)
        dst = os.path.join(ROOT, 'seeded', a.seed_id)
        os.makedirs(dst, exist_ok=True)
        shutil.copy(patch, os.path.join(dst, 'patch.diff'))
        shutil.copy(demo, os.path.join(dst, 'demo.py'))
        n = os.path.join(a.variant, 'notes.md')
        if os.path.exists(n):
            shutil.copy(n, os.path.join(dst, 'notes.md'))
        with open(os.path.join(dst, 'meta.json'), 'w') as f:
            json.dump(meta, f, indent=1)
        ok = all(meta['confirmed'].values())
        print('CONFIRMED' if ok else 'NOT CONFIRMED', meta['confirmed'], 'detected_by', meta['detected_by'])
        return 0
    finally:
        shutil.rmtree(tmp, ignore_errors=True)


if __name__ == '__main__':
    sys.exit(main())
