#!/usr/bin/env python3-vt
'''Validates MANIFEST.json and evidence/*.json against the schemas (run with python3-vt).'''
import glob
import json
import sys
import jsonschema

ok = True
man = json.load(open('/verif/MANIFEST.json'))
try:
    jsonschema.validate(man, json.load(open('/root/.vp/MANIFEST.schema.json')))
    print('MANIFEST ok:', len(man['checks']), 'checks,', len(man.get('not_applicable', [])), 'not applicable')
except jsonschema.ValidationError as e:
    ok = False
    print('MANIFEST INVALID', e.message)
sch = json.load(open('/root/.vp/EVIDENCE.schema.json'))
for f in sorted(glob.glob('/verif/evidence/*.json')):
    try:
        jsonschema.validate(json.load(open(f)), sch)
        print('ok', f)
    except jsonschema.ValidationError as e:
        ok = False
        print('INVALID', f, e.message[:300])
sys.exit(0 if ok else 1)
