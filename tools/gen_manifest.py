#!/venv/bin/python
'''Regenerates /verif/MANIFEST.json from the check registry (mc/checks.py) and validates it.'''
import json
import os
import sys

ROOT = os.path.dirname(os.path.dirname(os.path.abspath(__file__)))
sys.path.insert(0, ROOT)
import mc  # noqa
from mc import checks  # noqa
import mc.allkinds  # noqa

ALL = [f'C{i:02d}' for i in range(1, 21)]

BASELINE_OFF = ('cd /repo && env -u SIMPROCESD_VERIF /venv/bin/python -m pytest -ra -q -p no:cacheprovider '
                '--timeout=900 --continue-on-collection-errors')


def main():
    man = {
        'version': 1,
        'setup_cmd': '/venv/bin/python -c "import sys; sys.path.insert(0, \'/verif\'); import mc, mc.allkinds; print(\'ok\')"',
        'hooks': {
            'guard': 'SIMPROCESD_VERIF',
            'enable': 'no hooks in /repo are needed: the explorer drives the real Environment.step() / '
                      'System.simulate() from /verif (instance-level observers, public callbacks); the guard '
                      'name is reserved and set by mc/__init__.py',
            'baseline_off_cmd': BASELINE_OFF,
            'source_commits': [],
            'add_only': True,
        },
        'engines': [
            {'name': 'E1 fork-mode explicit-state explorer', 'path': 'mc/explorer.py',
             'serves_properties': sorted(checks.CHECKS),
             'kind_free_text': 'hand-written explicit-state model checker over the real Python objects: '
                               'all tie-break orders + <=K injected environment operations, state matching '
                               'by canonical digest, worlds forked by pickling'},
            {'name': 'E2 linear replayer through the real System.simulate()/Environment.run()',
             'path': 'mc/line.py', 'serves_properties': sorted(checks.CHECKS),
             'kind_free_text': 'determinism gate for violations, conformance of E1 terminal states, replay artefacts'},
        ],
        'checks': [],
        'not_applicable': [],
        'notes': 'See DESIGN.md. All checks: ./run_check.py <ID> --tier quick|thorough; replay: ./run_check.py <ID> --replay <file>.',
    }
    for pid in ALL:
        c = checks.CHECKS.get(pid)
        if c is None:
            man['not_applicable'].append({'property_id': pid,
                                          'reason': 'check not built yet in this session (planned in DESIGN.md section 5); '
                                                    'not a claim that the technique does not apply'})
            continue
        man['checks'].append({
            'property_id': pid,
            'quick_cmd': f'./run_check.py {pid} --tier quick',
            'thorough_cmd': f'./run_check.py {pid} --tier thorough',
            'evidence_file': f'evidence/{pid}.json',
            'replay_cmd_template': f'./run_check.py {pid} --replay {{path}}',
            'engine': 'E1 fork-mode explicit-state explorer',
            'level_claimed': {'category': 'model_checking', 'text': c.level_text, 'design_ref': f'DESIGN.md section 5 ({pid})'},
            'level_note': c.level_note,
            'technique': c.technique,
        })
    p = os.path.join(ROOT, 'MANIFEST.json')
    with open(p, 'w') as f:
        json.dump(man, f, indent=1)
    try:
        import jsonschema
        jsonschema.validate(man, json.load(open('/root/.vp/MANIFEST.schema.json')))
        print('MANIFEST.json valid;', len(man['checks']), 'checks')
    except ImportError:
        print('MANIFEST.json written (jsonschema not available in this interpreter)')


if __name__ == '__main__':
    main()
