#!/venv/bin/python
'''Regenerates /verif/MANIFEST.json from the check registry (mc/checks.py) and validates it.'''
import json
import os
import sys

ROOT = os.path.dirname(os.path.dirname(os.path.abspath(__file__)))
sys.path.insert(0, ROOT)
import mc  # noqa
from mc import checks  # noqa
import mc.allkinds  # noqa

ALL = [f'C{i:02d}' for i in range(1, 21)]

BASELINE_OFF = ('cd /repo && env -u SIMPROCESD_VERIF /venv/bin/python -m pytest -ra -q -p no:cacheprovider '
                '--timeout=900 --continue-on-collection-errors')


def main():
    man = {
        'version': 1,
        'setup_cmd': '/venv/bin/python -c "import sys; sys.path.insert(0, \'/verif\'); import mc, mc.allkinds; print(\'ok\')"',
        'hooks': {
            'guard': 'SIMPROCESD_VERIF',
            'enable': 'no hooks in /repo are needed: the explorer drives the real Environment.step() / '
                      'System.simulate() from /verif (instance-level give_part observers, public callbacks, a logging '
                      'wrapper around Asset.initialize installed at run time); the guard name is reserved and set by mc/__init__.py',
            'baseline_off_cmd': BASELINE_OFF,
            'source_commits': [],
            'add_only': True,
        },
        'engines': [
            {'name': 'E1 fork-mode explicit-state explorer', 'path': 'mc/explorer.py',
             'serves_properties': sorted(checks.CHECKS),
             'kind_free_text': 'hand-written explicit-state model checker over the real Python objects: DFS with state matching '
                               'by canonical digest (mc/canon.py), worlds forked by pickling, process-global library state owned '
                               'per world (mc/globalstate.py), 16 worker processes'},
            {'name': 'line worlds + E2 replayer through the real System.simulate()', 'path': 'mc/line.py',
             'serves_properties': [p for p in sorted(checks.CHECKS) if p not in ('C01', 'C07', 'C09', 'C10', 'C12')],
             'kind_free_text': 'closed systems of real devices from a declarative spec; all tie-break orders + <=K injected '
                               'operations at three positions and between consecutive runs; monitors/reference models inside the '
                               'world (mc/monitors.py); every violation and a sample of terminal paths (every split point) replayed '
                               'through real (consecutive) System.simulate() calls'},
            {'name': 'component worlds with lock-step reference models', 'path': 'mc/comp.py',
             'serves_properties': ['C01', 'C07', 'C09', 'C10', 'C12', 'C20'],
             'kind_free_text': 'one real component (Environment, ResourceManager, Maintainer, System registry) driven through its '
                               'public API over a small argument alphabet up to a depth bound; linear replay through the real run loop'},
            {'name': 'reproducibility grid and executor completion orders', 'path': 'mc/repro.py',
             'serves_properties': ['C14'],
             'kind_free_text': 'enumerated seed x id-offset grid of real runs, fresh interpreters with different PYTHONHASHSEED, '
                               'simulate_multiple_times with a controllable executor completing futures in every permutation'},
        ],
        'checks': [],
        'not_applicable': [],
        'notes': 'See DESIGN.md (section 12 = as built). All checks: ./run_check.py <ID> --tier quick|thorough; replay: '
                 './run_check.py <ID> --replay <file>; regression artefacts of repaired defects: replays/fixed + tests/test_replays.py; '
                 'independently seeded breaking changes: seeded/ (tools/try_mutant.py <patch> <ID>).',
    }
    for pid in ALL:
        c = checks.CHECKS.get(pid)
        if c is None:
            man['not_applicable'].append({'property_id': pid,
                                          'reason': 'check not built yet in this session (planned in DESIGN.md section 5); '
                                                    'not a claim that the technique does not apply'})
            continue
        man['checks'].append({
            'property_id': pid,
            'quick_cmd': f'./run_check.py {pid} --tier quick',
            'thorough_cmd': f'./run_check.py {pid} --tier thorough',
            'evidence_file': f'evidence/{pid}.json',
            'replay_cmd_template': f'./run_check.py {pid} --replay {{path}}',
            'engine': 'component worlds with lock-step reference models' if pid in ('C01', 'C07', 'C09', 'C10', 'C12')
            else 'line worlds + E2 replayer through the real System.simulate()',
            'level_claimed': {'category': 'model_checking', 'text': c.level_text, 'design_ref': f'DESIGN.md section 5 ({pid})'},
            'level_note': c.level_note,
            'technique': c.technique,
        })
    p = os.path.join(ROOT, 'MANIFEST.json')
    with open(p, 'w') as f:
        json.dump(man, f, indent=1)
    try:
        import jsonschema
        jsonschema.validate(man, json.load(open('/root/.vp/MANIFEST.schema.json')))
        print('MANIFEST.json valid;', len(man['checks']), 'checks')
    except ImportError:
        print('MANIFEST.json written (jsonschema not available in this interpreter)')


if __name__ == '__main__':
    main()
